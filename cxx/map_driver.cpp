// map_driver.cpp — family "map" (property C10): the REAL map_ of /repo's tree, wired
// with the static wiring DSL over TSD<int, TS<int>> inputs, run by the real simulation
// executor.  See gen/map.py for the case format; coq/MapSpec.v must print the same lines.
#include "hgv_io.h"

#include <hgraph/lib/std/std_nodes.h>
#include <hgraph/lib/std/std_operators.h>
#include <hgraph/lib/testing/runtime_support.h>
#include <hgraph/runtime/lifecycle_observer.h>
#include <hgraph/runtime/node_error.h>
#include <hgraph/runtime/node_scheduler.h>
#include <hgraph/runtime/runtime.h>
#include <hgraph/types/graph_wiring.h>
#include <hgraph/types/static_node.h>
#include <hgraph/types/subgraph_wiring.h>
#include <hgraph/types/wired_fn.h>

#include <algorithm>
#include <map>
#include <set>
#include <optional>
#include <stdexcept>

namespace hgraph::stdlib { void register_json_operators() {} }

using namespace hgraph;
using hgv::Line;

namespace
{
    std::int64_t us(DateTime t) { return t.time_since_epoch().count(); }
    DateTime     dt(std::int64_t v) { return DateTime{TimeDelta{v}}; }

    struct DictOp { std::int64_t code, key, val; };            // 1 set key val ; 2 erase key
    using DictScript = std::map<std::int64_t, std::vector<DictOp>>;   // time -> ops
    using IntScript  = std::map<std::int64_t, std::int64_t>;          // time -> value

    struct Ctx
    {
        std::int64_t start{1}, end{10};
        std::int64_t body{0}, p1{0}, p2{0};
        std::int64_t ndict{1}, bcast{0}, usekey{0}, capture{0}, nested{0}, shape{0};
        std::set<std::int64_t> seen_valid;   // TSL sink: indices that have been valid before
        DictScript   dict[2];
        IntScript    bc;
        hgv::Out    *out{nullptr};
        // per-cycle aggregation (flushed, sorted by line code, when the next root cycle begins)
        std::int64_t              cur_t{0};
        bool                      finished{false};
        std::int64_t              starts{0}, stops{0}, final_stops{0};
        std::vector<std::int64_t> probe_starts, probe_stops, final_probe_stops;
        std::vector<Line>         sink_lines;
        void flush()
        {
            auto sorted = [](std::vector<std::int64_t> v) { std::sort(v.begin(), v.end()); return v; };
            // nested bodies start / stop inner children too: the counts are reported for flat bodies only
            if (starts && body != 6) { out->line({20, cur_t, starts}); }
            if (stops && body != 6) { out->line({21, cur_t, stops}); }
            if (!probe_starts.empty()) { Line l{22, cur_t}; for (auto k : sorted(probe_starts)) { l.push_back(k); } out->line(l); }
            if (!probe_stops.empty()) { Line l{23, cur_t}; for (auto k : sorted(probe_stops)) { l.push_back(k); } out->line(l); }
            std::stable_sort(sink_lines.begin(), sink_lines.end(), [](const Line &a, const Line &b) { return a[0] < b[0]; });
            for (const Line &l : sink_lines) { out->line(l); }
            starts = stops = 0;
            probe_starts.clear(); probe_stops.clear(); sink_lines.clear();
        }
    };
    Ctx *G = nullptr;

    // ------------------------------------------------------------------ sources
    struct DictSrc
    {
        static constexpr auto name              = "hgv_dict_src";
        static constexpr bool schedule_on_start = true;
        static void eval(DateTime now, NodeScheduler sched, Scalar<"idx", Int> idx, Out<TSD<Int, TS<Int>>> out)
        {
            const DictScript &s  = G->dict[idx.value()];
            auto              it = s.find(us(now));
            if (it != s.end())
            {
                for (const DictOp &op : it->second)
                {
                    if (op.code == 1) { out.set(Int{op.key}, Int{op.val}); }
                    else if (op.code == 2 && out.contains(Int{op.key})) { (void)out.erase(Int{op.key}); }
                }
            }
            auto nx = s.upper_bound(us(now));
            if (nx != s.end()) { sched.schedule(dt(nx->first)); }
        }
    };

    struct IntSrc
    {
        static constexpr auto name              = "hgv_int_src";
        static constexpr bool schedule_on_start = true;
        static void eval(DateTime now, NodeScheduler sched, Out<TS<Int>> out)
        {
            const IntScript &s  = G->bc;
            auto             it = s.find(us(now));
            if (it != s.end()) { out.set(Int{it->second}); }
            auto nx = s.upper_bound(us(now));
            if (nx != s.end()) { sched.schedule(dt(nx->first)); }
        }
    };

    // ------------------------------------------------------------------ body vocabulary
    struct AddC
    {
        static constexpr auto name = "hgv_addc";
        static void eval(In<"ts", TS<Int>> ts, Scalar<"c", Int> c, Out<TS<Int>> out) { out.set(ts.value() + c.value()); }
    };
    struct Acc
    {
        static constexpr auto name = "hgv_acc";
        static void eval(In<"ts", TS<Int>> ts, State<Int> st, Out<TS<Int>> out)
        {
            st.set(st.get() + ts.value());
            out.set(st.get());
        }
    };
    struct Add2
    {
        static constexpr auto name = "hgv_add2";
        static void eval(In<"a", TS<Int>> a, In<"b", TS<Int>> b, Out<TS<Int>> out) { out.set(a.value() + b.value()); }
    };
    struct KeyMix
    {
        static constexpr auto name = "hgv_keymix";
        static void eval(In<"key", TS<Int>> key, In<"ts", TS<Int>> ts, Out<TS<Int>> out)
        {
            out.set(key.value() * 1000 + ts.value());
        }
    };
    // timer d: schedules itself d after each input tick; emits (last input + 500) on wake.
    struct Timer
    {
        static constexpr auto name = "hgv_timer";
        static void eval(In<"ts", TS<Int>> ts, NodeScheduler sched, Scalar<"d", Int> d, Scalar<"tagged", Int> tagged,
                         State<Int> st, Out<TS<Int>> out)
        {
            if (sched.is_scheduled_now()) { out.set(st.get() + 500); }
            if (ts.modified())
            {
                st.set(ts.value());
                if (tagged.value() != 0) { sched.schedule(TimeDelta{d.value()}, std::string{"t"}); }
                else { sched.schedule(TimeDelta{d.value()}); }
            }
        }
    };
    struct Boom
    {
        static constexpr auto name = "hgv_boom";
        static void eval(In<"ts", TS<Int>> ts, Scalar<"v", Int> v, Out<TS<Int>> out)
        {
            if (ts.value() == v.value()) { throw std::runtime_error("hgv boom"); }
            out.set(ts.value());
        }
    };
    // lifecycle probe: knows its key; reports first evaluation and stop
    struct KeyProbe
    {
        static constexpr auto name = "hgv_keyprobe";
        static void stop(State<Int> st) { (G->finished ? G->final_probe_stops : G->probe_stops).push_back(st.get()); }
        static void eval(DateTime, In<"key", TS<Int>> key, State<Int> st)
        {
            st.set(key.value());
            G->probe_starts.push_back(key.value());
        }
    };

    Port<TS<Int>> body_chain(Wiring &w, Port<TS<Int>> x)
    {
        switch (G->body)
        {
            case 0: return wire<AddC>(w, x, Int{G->p1});
            case 1: return wire<Acc>(w, x);
            case 2: return wire<AddC>(w, wire<Acc>(w, x), Int{G->p1});
            case 3: return wire<Timer>(w, x, Int{G->p1}, Int{G->p2});
            case 4: return wire<Acc>(w, wire<Timer>(w, x, Int{G->p1}, Int{G->p2}));
            case 5: return wire<Boom>(w, wire<Acc>(w, x), Int{G->p1});
            case 7: return wire<Boom>(w, x, Int{G->p1});   // stateless: throws every time the input is p1
            default: return wire<AddC>(w, x, Int{0});
        }
    }

    struct Add3
    {
        static constexpr auto name = "hgv_add3";
        static void eval(In<"a", TS<Int>> a, In<"b", TS<Int>> b, In<"c", TS<Int>> c, Out<TS<Int>> out)
        {
            out.set(a.value() + b.value() + c.value());
        }
    };

    // argument orders: X = element of the key-owning dictionary, Y = element of the second dictionary, B = broadcast
    Port<TS<Int>> mix(Wiring &w, std::optional<Port<TS<Int>>> key, Port<TS<Int>> x)
    {
        if (!key) { return x; }
        wire<KeyProbe>(w, *key);
        return wire<KeyMix>(w, *key, x);
    }
    template <int I> struct BodyXYB
    {
        static constexpr auto name = "hgv_body_xyb";
        static Port<TS<Int>>  compose(Wiring &w, Port<TS<Int>> x, Port<TS<Int>> y, Port<TS<Int>> b)
        { return body_chain(w, wire<Add3>(w, x, y, b)); }
    };
    template <int I> struct BodyXYBK
    {
        static constexpr auto name = "hgv_body_xyb_k";
        static Port<TS<Int>>  compose(Wiring &w, NamedPort<"key", TS<Int>> key, Port<TS<Int>> x, Port<TS<Int>> y, Port<TS<Int>> b)
        { return body_chain(w, wire<Add3>(w, mix(w, Port<TS<Int>>{key}, x), y, b)); }
    };
    template <int I> struct BodyBX
    {
        static constexpr auto name = "hgv_body_bx";
        static Port<TS<Int>>  compose(Wiring &w, Port<TS<Int>> b, Port<TS<Int>> x) { return body_chain(w, wire<Add2>(w, x, b)); }
    };
    template <int I> struct BodyBXK
    {
        static constexpr auto name = "hgv_body_bx_k";
        static Port<TS<Int>>  compose(Wiring &w, NamedPort<"key", TS<Int>> key, Port<TS<Int>> b, Port<TS<Int>> x)
        { return body_chain(w, wire<Add2>(w, mix(w, Port<TS<Int>>{key}, x), b)); }
    };
    template <int I> struct BodyBXY
    {
        static constexpr auto name = "hgv_body_bxy";
        static Port<TS<Int>>  compose(Wiring &w, Port<TS<Int>> b, Port<TS<Int>> x, Port<TS<Int>> y)
        { return body_chain(w, wire<Add3>(w, x, y, b)); }
    };
    template <int I> struct BodyBXYK
    {
        static constexpr auto name = "hgv_body_bxy_k";
        static Port<TS<Int>>  compose(Wiring &w, NamedPort<"key", TS<Int>> key, Port<TS<Int>> b, Port<TS<Int>> x, Port<TS<Int>> y)
        { return body_chain(w, wire<Add3>(w, mix(w, Port<TS<Int>>{key}, x), y, b)); }
    };
    template <int I> struct BodyBYX
    {
        static constexpr auto name = "hgv_body_byx";
        static Port<TS<Int>>  compose(Wiring &w, Port<TS<Int>> b, Port<TS<Int>> y, Port<TS<Int>> x)
        { return body_chain(w, wire<Add3>(w, x, y, b)); }
    };
    template <int I> struct BodyBYXK
    {
        static constexpr auto name = "hgv_body_byx_k";
        static Port<TS<Int>>  compose(Wiring &w, NamedPort<"key", TS<Int>> key, Port<TS<Int>> b, Port<TS<Int>> y, Port<TS<Int>> x)
        { return body_chain(w, wire<Add3>(w, mix(w, Port<TS<Int>>{key}, x), y, b)); }
    };
    // list maps consume the index when the first parameter is named "ndx"
    template <int I> struct BodyL1K
    {
        static constexpr auto name = "hgv_body_l1k";
        static Port<TS<Int>>  compose(Wiring &w, NamedPort<"ndx", TS<Int>> ndx, Port<TS<Int>> x)
        { return body_chain(w, mix(w, Port<TS<Int>>{ndx}, x)); }
    };
    template <int I> struct BodyL2K
    {
        static constexpr auto name = "hgv_body_l2k";
        static Port<TS<Int>>  compose(Wiring &w, NamedPort<"ndx", TS<Int>> ndx, Port<TS<Int>> x, Port<TS<Int>> y)
        { return body_chain(w, wire<Add2>(w, mix(w, Port<TS<Int>>{ndx}, x), y)); }
    };
    template <int I> struct BodyL3K
    {
        static constexpr auto name = "hgv_body_l3k";
        static Port<TS<Int>>  compose(Wiring &w, NamedPort<"ndx", TS<Int>> ndx, Port<TS<Int>> x, Port<TS<Int>> y, Port<TS<Int>> b)
        { return body_chain(w, wire<Add3>(w, mix(w, Port<TS<Int>>{ndx}, x), y, b)); }
    };

    template <int I> struct Body1
    {
        static constexpr auto name = "hgv_body1";
        static Port<TS<Int>>  compose(Wiring &w, Port<TS<Int>> x) { return body_chain(w, x); }
    };
    template <int I> struct Body1K
    {
        static constexpr auto name = "hgv_body1k";
        static Port<TS<Int>>  compose(Wiring &w, NamedPort<"key", TS<Int>> key, Port<TS<Int>> x)
        {
            wire<KeyProbe>(w, key);
            return body_chain(w, wire<KeyMix>(w, key, x));
        }
    };
    template <int I> struct Body2
    {
        static constexpr auto name = "hgv_body2";
        static Port<TS<Int>>  compose(Wiring &w, Port<TS<Int>> x, Port<TS<Int>> y) { return body_chain(w, wire<Add2>(w, x, y)); }
    };
    template <int I> struct Body2K
    {
        static constexpr auto name = "hgv_body2k";
        static Port<TS<Int>>  compose(Wiring &w, NamedPort<"key", TS<Int>> key, Port<TS<Int>> x, Port<TS<Int>> y)
        {
            wire<KeyProbe>(w, key);
            return body_chain(w, wire<Add2>(w, wire<KeyMix>(w, key, x), y));
        }
    };

    // nested map: the body maps over the WHOLE second dictionary (passed through) with its own element as the
    // inner broadcast argument, and sums the inner map's valid elements
    struct SumDict
    {
        static constexpr auto name = "hgv_sumdict";
        static void eval(In<"d", TSD<Int, TS<Int>>, InputValidity::Unchecked> d, Out<TS<Int>> out)
        {
            Int total = 0;
            for (const auto &[k, v] : d.valid_items()) { (void)k; total += v.value(); }
            out.set(total);
        }
    };
    struct InnerAdd
    {
        static constexpr auto name = "hgv_inner_add";
        static Port<TS<Int>>  compose(Wiring &w, Port<TS<Int>> y, Port<TS<Int>> x) { return wire<Add2>(w, y, x); }
    };
    template <int I> struct BodyNested
    {
        static constexpr auto name = "hgv_body_nested";
        static Port<TS<Int>>  compose(Wiring &w, Port<TS<Int>> x, Port<TSD<Int, TS<Int>>> d)
        {
            auto inner = wire<stdlib::map_>(w, fn<InnerAdd>(), d, x).template as<TSD<Int, TS<Int>>>();
            return wire<SumDict>(w, inner);
        }
    };
    template <int I> struct BodyNestedK
    {
        static constexpr auto name = "hgv_body_nested_k";
        static Port<TS<Int>>  compose(Wiring &w, NamedPort<"key", TS<Int>> key, Port<TS<Int>> x, Port<TSD<Int, TS<Int>>> d)
        {
            wire<KeyProbe>(w, key);
            auto inner = wire<stdlib::map_>(w, fn<InnerAdd>(), d, wire<KeyMix>(w, key, x)).template as<TSD<Int, TS<Int>>>();
            return wire<SumDict>(w, inner);
        }
    };

    // ------------------------------------------------------------------ sinks
    struct RecSink
    {
        static constexpr auto name = "hgv_rec";
        static void eval(DateTime now, In<"d", TSD<Int, TS<Int>>, InputValidity::Unchecked> d)
        {
            const std::int64_t t = us(now);
            std::vector<std::int64_t>                          removed, live;
            std::vector<std::pair<std::int64_t, std::int64_t>> mod, all;
            std::vector<std::int64_t>                          modinv;
            for (const auto &[k, v] : d.removed_items()) { (void)v; removed.push_back(k.template checked_as<Int>()); }
            for (const auto &[k, v] : d.modified_items())
            {
                if (v.valid()) { mod.emplace_back(k.template checked_as<Int>(), v.value()); }
                else { modinv.push_back(k.template checked_as<Int>()); }
            }
            std::vector<std::int64_t> added;
            for (const auto &[k, v] : d.added_items()) { (void)v; added.push_back(k.template checked_as<Int>()); }
            std::sort(added.begin(), added.end());
            for (const auto &[k, v] : d.items())
            {
                live.push_back(k.template checked_as<Int>());
                if (v.valid()) { all.emplace_back(k.template checked_as<Int>(), v.value()); }
            }
            std::sort(removed.begin(), removed.end());
            std::sort(mod.begin(), mod.end());
            std::sort(modinv.begin(), modinv.end());
            std::sort(all.begin(), all.end());
            std::sort(live.begin(), live.end());
            auto &L = G->sink_lines;
            L.push_back(Line{30, t});
            Line r{31, t};
            for (auto k : removed) { r.push_back(k); }
            L.push_back(r);
            Line m{32, t};
            for (auto &[k, v] : mod) { m.push_back(k); m.push_back(v); }
            L.push_back(m);
            Line mi{33, t};
            for (auto k : modinv) { mi.push_back(k); }
            L.push_back(mi);
            Line a{34, t};
            for (auto &[k, v] : all) { a.push_back(k); a.push_back(v); }
            L.push_back(a);
            Line lv{35, t};
            for (auto k : live) { lv.push_back(k); }
            L.push_back(lv);
            Line ad{36, t};
            for (auto k : added) { ad.push_back(k); }
            L.push_back(ad);
        }
    };

    // captured child errors: keys whose error element ticked this cycle
    struct ErrSink
    {
        static constexpr auto name = "hgv_errsink";
        static void eval(DateTime now, In<"e", TSD<Int, TS<NodeError>>, InputValidity::Unchecked> e)
        {
            // every tick of the error dictionary is reported, also one with an empty delta
            std::vector<std::int64_t> keys, removed;
            for (const auto &[k, v] : e.modified_items()) { (void)v; keys.push_back(k.template checked_as<Int>()); }
            for (const auto &[k, v] : e.removed_items()) { (void)v; removed.push_back(k.template checked_as<Int>()); }
            std::sort(keys.begin(), keys.end());
            std::sort(removed.begin(), removed.end());
            Line l{37, us(now)};
            for (auto k : keys) { l.push_back(k); }
            G->sink_lines.push_back(l);
            Line r{38, us(now)};
            for (auto k : removed) { r.push_back(k); }
            G->sink_lines.push_back(r);
        }
    };

    // ------------------------------------------------------------------ dynamic lists (map_ over TSL, index = key)
    struct ListSrc
    {
        static constexpr auto name              = "hgv_list_src";
        static constexpr bool schedule_on_start = true;
        static void eval(DateTime now, NodeScheduler sched, Scalar<"idx", Int> idx, Out<TSL<TS<Int>>> out)
        {
            const DictScript &s  = G->dict[idx.value()];
            auto              it = s.find(us(now));
            if (it != s.end())
            {
                for (const DictOp &op : it->second)
                {
                    if (op.code == 1) { out.set(static_cast<std::size_t>(op.key), Int{op.val}); }
                }
            }
            auto nx = s.upper_bound(us(now));
            if (nx != s.end()) { sched.schedule(dt(nx->first)); }
        }
    };

    struct RecSinkL
    {
        static constexpr auto name = "hgv_rec_list";
        static void eval(DateTime now, In<"l", TSL<TS<Int>>, InputValidity::Unchecked> l)
        {
            const std::int64_t t = us(now);
            Line m{32, t}, a{34, t}, lv{35, t}, ad{36, t};
            for (std::size_t i = 0; i < l.size(); ++i)
            {
                auto child = l[i];
                lv.push_back((std::int64_t)i);
                if (!child.valid()) { continue; }
                a.push_back((std::int64_t)i);
                a.push_back(child.value());
                if (child.modified())
                {
                    m.push_back((std::int64_t)i);
                    m.push_back(child.value());
                }
                if (G->seen_valid.insert((std::int64_t)i).second) { ad.push_back((std::int64_t)i); }
            }
            auto &L = G->sink_lines;
            L.push_back(Line{30, t});
            L.push_back(Line{31, t});
            L.push_back(m);
            L.push_back(Line{33, t});
            L.push_back(a);
            L.push_back(lv);
            L.push_back(ad);
        }
    };

    struct Obs : LifecycleObserver
    {
        void on_after_start_graph(const GraphView &g) override
        {
            if (g.is_nested()) { ++G->starts; }
        }
        void on_before_stop_graph(const GraphView &g) override
        {
            if (!g.is_nested()) { G->flush(); G->finished = true; }
            else if (G->finished) { ++G->final_stops; }
            else { ++G->stops; }
        }
        void on_before_graph_evaluation(const GraphView &g) override
        {
            if (!g.is_nested())
            {
                G->flush();
                G->cur_t = us(g.evaluation_time());
            }
        }
    };

    void run_graph(Ctx &ctx, hgv::Out &out, Wiring w)
    {
            GraphBuilder gb = std::move(w).finish();

            Obs                  obs;
            GraphExecutorBuilder eb;
            eb.graph_builder(std::move(gb)).start_time(dt(ctx.start)).end_time(dt(ctx.end)).add_lifecycle_observer(&obs);
            GraphExecutorValue executor = eb.make_executor();
            auto               ev       = executor.view();
            bool failed = false;
            try { ev.run(); }
            catch (const std::exception &e)
            {
                const std::string wh = e.what();
                ctx.flush();
                failed = true;
                out.line({19, wh.find("hgv boom") != std::string::npos ? 2 : 1});
                std::fprintf(stderr, "run error: %s\n", wh.c_str());
            }
            if (!failed)
            {
                ctx.flush();
                if (ctx.body != 6) { out.line({24, ctx.final_stops}); }
                if (ctx.usekey)
                {
                    Line l{25};
                    std::sort(ctx.final_probe_stops.begin(), ctx.final_probe_stops.end());
                    for (auto k : ctx.final_probe_stops) { l.push_back(k); }
                    out.line(l);
                }
            }
        }

    void run_case(const hgv::Case &c, hgv::Out &out)
    {
        Ctx ctx;
        ctx.out = &out;
        G       = &ctx;
        for (const Line &l : c)
        {
            if (l[0] == 1) { ctx.start = l[1]; ctx.end = l[2]; }
            else if (l[0] == 2)
            {
                ctx.body = l[1]; ctx.p1 = l[2]; ctx.p2 = l[3];
                ctx.ndict = l[4]; ctx.bcast = l[5]; ctx.usekey = l[6]; ctx.capture = l[7];
                ctx.shape = l.size() > 8 ? l[8] : 0;
            }
            else if (l[0] == 3) { ctx.dict[l[1]][l[2]].push_back({l[3], l[4], l[5]}); }
            else if (l[0] == 4) { ctx.bc[l[1]] = l[2]; }
        }
        try
        {
            Wiring w;
            if (ctx.shape == 5)
            {
                // map_ over dynamic lists: the index is the key
                using L = TSL<TS<Int>>;
                auto l0 = wire<ListSrc>(w, Int{0});
                Port<L> mapped = [&] {
                    if (ctx.ndict == 2)
                    {
                        auto l1 = wire<ListSrc>(w, Int{1});
                        if (ctx.bcast)
                        {
                            auto b = wire<IntSrc>(w);
                            return ctx.usekey ? wire<stdlib::map_>(w, fn<BodyL3K<0>>(), l0, l1, b).as<L>()
                                              : wire<stdlib::map_>(w, fn<BodyXYB<0>>(), l0, l1, b).as<L>();
                        }
                        return ctx.usekey ? wire<stdlib::map_>(w, fn<BodyL2K<0>>(), l0, l1).as<L>()
                                          : wire<stdlib::map_>(w, fn<Body2<0>>(), l0, l1).as<L>();
                    }
                    if (ctx.bcast)
                    {
                        auto b = wire<IntSrc>(w);
                        return ctx.usekey ? wire<stdlib::map_>(w, fn<BodyL2K<0>>(), l0, b).as<L>()
                                          : wire<stdlib::map_>(w, fn<Body2<0>>(), l0, b).as<L>();
                    }
                    return ctx.usekey ? wire<stdlib::map_>(w, fn<BodyL1K<0>>(), l0).as<L>()
                                      : wire<stdlib::map_>(w, fn<Body1<0>>(), l0).as<L>();
                }();
                wire<RecSinkL>(w, mapped);
                run_graph(ctx, out, std::move(w));
                G = nullptr;
                return;
            }
            auto   d0 = wire<DictSrc>(w, Int{0});
            using D = TSD<Int, TS<Int>>;
            Port<TSD<Int, TS<Int>>> mapped = [&] {
                if (ctx.shape >= 1 && ctx.shape <= 3)
                {
                    // the second dictionary is de-multiplexed but contributes no keys: no_key(d1)
                    auto d1 = wire<DictSrc>(w, Int{1});
                    if (ctx.shape == 1 && !ctx.bcast)
                    {
                        return ctx.usekey ? wire<stdlib::map_>(w, fn<Body2K<0>>(), d0, stdlib::no_key(d1)).as<D>()
                                          : wire<stdlib::map_>(w, fn<Body2<0>>(), d0, stdlib::no_key(d1)).as<D>();
                    }
                    auto b = wire<IntSrc>(w);
                    if (ctx.shape == 1)
                    {
                        return ctx.usekey ? wire<stdlib::map_>(w, fn<BodyXYBK<0>>(), d0, stdlib::no_key(d1), b).as<D>()
                                          : wire<stdlib::map_>(w, fn<BodyXYB<0>>(), d0, stdlib::no_key(d1), b).as<D>();
                    }
                    if (ctx.shape == 2)
                    {
                        return ctx.usekey ? wire<stdlib::map_>(w, fn<BodyBXYK<0>>(), b, d0, stdlib::no_key(d1)).as<D>()
                                          : wire<stdlib::map_>(w, fn<BodyBXY<0>>(), b, d0, stdlib::no_key(d1)).as<D>();
                    }
                    return ctx.usekey ? wire<stdlib::map_>(w, fn<BodyBYXK<0>>(), b, stdlib::no_key(d1), d0).as<D>()
                                      : wire<stdlib::map_>(w, fn<BodyBYX<0>>(), b, stdlib::no_key(d1), d0).as<D>();
                }
                if (ctx.shape == 4)
                {
                    // the broadcast argument in front of the multiplexed dictionaries
                    auto b = wire<IntSrc>(w);
                    if (ctx.ndict == 2)
                    {
                        auto d1 = wire<DictSrc>(w, Int{1});
                        return ctx.usekey ? wire<stdlib::map_>(w, fn<BodyBXYK<0>>(), b, d0, d1).as<D>()
                                          : wire<stdlib::map_>(w, fn<BodyBXY<0>>(), b, d0, d1).as<D>();
                    }
                    return ctx.usekey ? wire<stdlib::map_>(w, fn<BodyBXK<0>>(), b, d0).as<D>()
                                      : wire<stdlib::map_>(w, fn<BodyBX<0>>(), b, d0).as<D>();
                }
                if (ctx.body == 6)
                {
                    auto d1 = wire<DictSrc>(w, Int{1});
                    return ctx.usekey ? wire<stdlib::map_>(w, fn<BodyNestedK<0>>(), d0, stdlib::pass_through(d1)).as<TSD<Int, TS<Int>>>()
                                      : wire<stdlib::map_>(w, fn<BodyNested<0>>(), d0, stdlib::pass_through(d1)).as<TSD<Int, TS<Int>>>();
                }
                if (ctx.ndict == 2 || ctx.bcast)
                {
                    if (ctx.ndict == 2)
                    {
                        auto d1 = wire<DictSrc>(w, Int{1});
                        return ctx.usekey ? wire<stdlib::map_>(w, fn<Body2K<0>>(), d0, d1).as<TSD<Int, TS<Int>>>()
                                          : wire<stdlib::map_>(w, fn<Body2<0>>(), d0, d1).as<TSD<Int, TS<Int>>>();
                    }
                    auto b = wire<IntSrc>(w);
                    return ctx.usekey ? wire<stdlib::map_>(w, fn<Body2K<0>>(), d0, b).as<TSD<Int, TS<Int>>>()
                                      : wire<stdlib::map_>(w, fn<Body2<0>>(), d0, b).as<TSD<Int, TS<Int>>>();
                }
                return ctx.usekey ? wire<stdlib::map_>(w, fn<Body1K<0>>(), d0).as<TSD<Int, TS<Int>>>()
                                  : wire<stdlib::map_>(w, fn<Body1<0>>(), d0).as<TSD<Int, TS<Int>>>();
            }();
            wire<RecSink>(w, mapped);
            if (ctx.capture)
            {
                Port<TSD<Int, TS<NodeError>>> errors = exception_time_series(mapped);
                wire<ErrSink>(w, errors);
            }
            run_graph(ctx, out, std::move(w));
        }
        catch (const std::exception &e)
        {
            out.line({18, 1});
            std::fprintf(stderr, "build error: %s\n", e.what());
        }
        G = nullptr;
    }
}  // namespace

int main(int argc, char **argv)
{
    if (argc < 2) { std::fprintf(stderr, "usage: map_driver <batch>\n"); return 2; }
    stdlib::register_standard_operators();
    auto     batch = hgv::read_batch(argv[1]);
    hgv::Out out;
    for (const auto &c : batch)
    {
        run_case(c, out);
        out.end_case();
    }
    return 0;
}
