// lifecycle_driver.cpp — family "lifecycle" (property C14): trees of graphs built
// from NodeBuilder::native nodes (plain) and single_nested_graph_node (a node that
// owns a child graph), run by the real simulation executor of /repo's tree with a
// LifecycleObserver attached.  The nodes' start / evaluate / stop callbacks throw
// according to the case's fault plan (node path, phase, k-th invocation) and keep
// their own counters.  See gen/lifecycle.py for the case format; coq/Lifecycle.v
// is the model that must print the same lines.
#include "hgv_io.h"

#include <hgraph/lib/testing/runtime_support.h>
#include <hgraph/runtime/lifecycle_observer.h>
#include <hgraph/runtime/nested_graph_node.h>
#include <hgraph/runtime/runtime.h>
#include <hgraph/runtime/switch_node.h>
#include <hgraph/types/graph_wiring.h>
#include <hgraph/types/metadata/type_registry.h>

#include <cstdlib>
#include <exception>
#include <map>
#include <memory>
#include <optional>
#include <stdexcept>
#include <string>

namespace hgraph::stdlib { void register_json_operators() {} }
namespace hgv_dyn { void run_map_case(const hgv::Case &c, hgv::Out &out); }   // lifecycle_dyn.cpp

using namespace hgraph;
using hgv::Line;
using Path = std::vector<std::int64_t>;

namespace
{
    std::int64_t us(DateTime t) { return t.time_since_epoch().count(); }
    DateTime     dt(std::int64_t v) { return DateTime{TimeDelta{v}}; }

    // kind: 0 plain, 1 nested, 2 key source (emits keys[i] in its i-th evaluation), 3 switch_
    // (children = branches), 4 one branch of a switch_ (children = its nodes)
    struct TNode
    {
        int                                 kind{0};
        bool                                nested{false};
        std::int64_t                        period{0};
        std::int64_t                        src{0};     // switch_: index of the key source in the same graph
        std::vector<std::int64_t>           keys;       // key source
        std::vector<std::unique_ptr<TNode>> children;
        Path                                path;
    };

    // flavour: 0 std::runtime_error, 1 a plain struct, 2 an int (neither derives from std::exception)
    struct Fault { std::int64_t phase, k; Path path; std::int64_t flavour{0}; };
    struct ForeignBoom { std::int64_t id; };
    struct StopReq { std::int64_t k; Path path; };

    struct Ctx
    {
        std::vector<std::unique_ptr<TNode>>           root;
        std::vector<Fault>                            faults;
        std::vector<StopReq>                          stops;
        std::map<Path, std::array<std::int64_t, 3>>   counters;  // hook invocations per plain node
        hgv::Out                                     *out{nullptr};
        std::int64_t                                  first_foreign{-1};  // id of the first non-std fault thrown
    };

    Path graph_path(const GraphView &g)
    {
        if (!g.valid() || !g.is_nested()) { return {}; }
        NodeView  p      = g.as_nested().parent_node();
        GraphView parent = p.graph();
        Path      path   = graph_path(parent);
        path.push_back((std::int64_t)p.node_index());
        return path;
    }

    Path node_path(const NodeView &n)
    {
        GraphView g = n.graph();
        Path      p = graph_path(g);
        p.push_back((std::int64_t)n.node_index());
        return p;
    }

    void emit(hgv::Out &out, std::int64_t kind, std::int64_t t, const Path &p, std::optional<std::int64_t> extra = std::nullopt)
    {
        Line l{kind, t, (std::int64_t)p.size()};
        l.insert(l.end(), p.begin(), p.end());
        if (extra) { l.push_back(*extra); }
        out.line(l);
    }

    struct Obs : LifecycleObserver
    {
        hgv::Out *out;
        // "15 kind n": the observer itself throws in the n-th notification of that kind
        std::vector<std::pair<std::int64_t, std::int64_t>> throws;
        std::map<std::int64_t, std::int64_t>               seen;
        explicit Obs(hgv::Out *o) : out(o) {}
        void maybe_throw(std::int64_t k)
        {
            const std::int64_t n = seen[k]++;
            for (const auto &[kind, at] : throws)
            {
                if (kind == k && at == n)
                {
                    out->line({25, k, n});
                    throw std::runtime_error("hgv observer boom");
                }
            }
        }
        void g(std::int64_t k, const GraphView &gr)
        {
            emit(*out, k, us(gr.evaluation_time()), graph_path(gr));
            maybe_throw(k);
        }
        void n(std::int64_t k, const NodeView &nd)
        {
            GraphView gr = nd.graph();
            emit(*out, k, us(gr.evaluation_time()), node_path(nd));
            maybe_throw(k);
        }
        void on_before_start_graph(const GraphView &x) override { g(1, x); }
        void on_after_start_graph(const GraphView &x) override { g(2, x); }
        void on_start_graph_failed(const GraphView &x) override { g(3, x); }
        void on_before_start_node(const NodeView &x) override { n(4, x); }
        void on_after_start_node(const NodeView &x) override { n(5, x); }
        void on_start_node_failed(const NodeView &x) override { n(6, x); }
        void on_before_graph_evaluation(const GraphView &x) override { g(7, x); }
        void on_after_graph_evaluation(const GraphView &x) override { g(8, x); }
        void on_before_node_evaluation(const NodeView &x) override { n(9, x); }
        void on_after_node_evaluation(const NodeView &x) override { n(10, x); }
        void on_before_stop_node(const NodeView &x) override { n(11, x); }
        void on_after_stop_node(const NodeView &x) override { n(12, x); }
        void on_stop_node_failed(const NodeView &x) override { n(13, x); }
        void on_before_stop_graph(const GraphView &x) override { g(14, x); }
        void on_after_stop_graph(const GraphView &x) override { g(15, x); }
        void on_stop_graph_failed(const GraphView &x) override { g(16, x); }
    };

    // the user hook of a plain node: count, log, request stop, throw — all decided by the run-time path
    void hook(Ctx &ctx, const NodeView &view, DateTime t, std::int64_t phase, const Path *static_path = nullptr)
    {
        // nodes below a switch_ use their build-time path (the branch is encoded in it): the
        // branches of one switch_ share the run-time path of their graph
        const Path         p = static_path != nullptr ? *static_path : node_path(view);
        const std::int64_t k = ctx.counters[p][phase]++;
        emit(*ctx.out, 20 + phase, us(t), p, k);
        if (phase == 1)
        {
            for (const StopReq &s : ctx.stops)
            {
                if (s.k == k && s.path == p)
                {
                    GraphView gr = view.graph();
                    gr.executor().request_stop();
                }
            }
        }
        for (std::size_t id = 0; id < ctx.faults.size(); ++id)
        {
            const Fault &f = ctx.faults[id];
            if (f.phase == phase && f.k == k && f.path == p)
            {
                if (f.flavour != 0 && ctx.first_foreign < 0) { ctx.first_foreign = (std::int64_t)id; }
                if (f.flavour == 1) { throw ForeignBoom{(std::int64_t)id}; }
                if (f.flavour == 2) { throw (int)id; }
                throw std::runtime_error("hgv boom " + std::to_string(id));
            }
        }
    }

    GraphBuilder build_graph(Ctx &ctx, const std::vector<std::unique_ptr<TNode>> &nodes, const Path &prefix, bool under_switch,
                             std::int64_t offset = 0)
    {
        auto       &registry = TypeRegistry::instance();
        const auto *int_meta = registry.register_scalar<std::int64_t>("int64");
        const auto *ts_int   = registry.ts(int_meta);
        GraphBuilder gb;
        for (std::size_t idx = 0; idx < nodes.size(); ++idx)
        {
            TNode &n = *nodes[idx];
            n.path   = prefix;
            n.path.push_back(offset + (std::int64_t)idx);
            const Path *sp = under_switch ? &n.path : nullptr;
            Ctx        *pc = &ctx;
            if (n.kind == 0)
            {
                NodeTypeMetaData schema;
                schema.display_name      = "hgv_node";
                schema.schedule_on_start = n.period > 0;
                schema.node_kind         = NodeKind::PullSource;
                NodeCallbacks      cb;
                const std::int64_t period = n.period;
                cb.start    = [pc, sp](const NodeView &v, DateTime t) { hook(*pc, v, t, 0, sp); };
                cb.stop     = [pc, sp](const NodeView &v, DateTime t) { hook(*pc, v, t, 2, sp); };
                cb.evaluate = [pc, sp, period](const NodeView &v, DateTime t) {
                    hook(*pc, v, t, 1, sp);
                    if (period > 0) { v.graph_value()->schedule_node(v.node_index(), dt(us(t) + period)); }
                };
                gb.add_node(NodeBuilder::native(std::move(schema), std::move(cb)));
            }
            else if (n.kind == 1)
            {
                NodeTypeMetaData meta;
                meta.display_name = "hgv_nested";
                SingleNestedGraphNodeSpec spec;
                spec.graph_builder = build_graph(ctx, n.children, n.path, under_switch);
                gb.add_node(single_nested_graph_node(std::move(meta), std::move(spec)));
            }
            else if (n.kind == 2)
            {
                NodeTypeMetaData schema;
                schema.display_name      = "hgv_keys";
                schema.output_schema     = ts_int;
                schema.schedule_on_start = !n.keys.empty();
                schema.node_kind         = NodeKind::PullSource;
                NodeCallbacks cb;
                TNode        *pn    = &n;
                auto          calls = std::make_shared<std::size_t>(0);
                cb.start    = [pc, sp](const NodeView &v, DateTime t) { hook(*pc, v, t, 0, sp); };
                cb.stop     = [pc, sp](const NodeView &v, DateTime t) { hook(*pc, v, t, 2, sp); };
                cb.evaluate = [pc, sp, pn, calls](const NodeView &v, DateTime t) {
                    hook(*pc, v, t, 1, sp);
                    if (*calls < pn->keys.size())
                    {
                        auto mutation = v.output(t).begin_mutation(t);
                        static_cast<void>(mutation.move_value_from(Value{pn->keys[*calls]}));
                    }
                    ++*calls;
                    if (*calls < pn->keys.size()) { v.graph_value()->schedule_node(v.node_index(), dt(us(t) + 1)); }
                };
                gb.add_node(NodeBuilder::native(std::move(schema), std::move(cb)));
            }
            else if (n.kind == 3)
            {
                const auto    *sw_input = registry.un_named_tsb({{"key", ts_int}});
                SwitchNodeSpec spec;
                for (std::size_t b = 0; b < n.children.size(); ++b)
                {
                    SwitchBranch br;
                    br.key = Value{(std::int64_t)b};
                    // nodes of branch b are addressed <switch path> ++ [100*(b+1) + index]
                    br.spec.graph_builder = build_graph(ctx, n.children[b]->children, n.path, true, 100 * ((std::int64_t)b + 1));
                    spec.branches.push_back(std::move(br));
                }
                NodeTypeMetaData meta;
                meta.display_name = "hgv_switch";
                meta.input_schema = sw_input;
                NodeBuilder sw    = switch_node(std::move(meta), std::move(spec));
                sw.input_endpoint(TSEndpointSchema::non_peered(sw_input, {TSEndpointSchema::peered(ts_int)}));
                gb.add_node(std::move(sw));
                gb.add_edge(GraphEdge{.source_node = (std::size_t)n.src, .source_path = {}, .target_node = idx, .target_path = {0}});
            }
        }
        return gb;
    }

    // final flags, pre-order: 31 node started, 32 graph started
    void dump_flags(hgv::Out &out, const std::vector<std::unique_ptr<TNode>> &nodes, const Path &gp, const GraphView *g)
    {
        if (g != nullptr && !g->valid()) { g = nullptr; }
        Line l{32, g ? (std::int64_t)g->started() : 0, (std::int64_t)gp.size()};
        l.insert(l.end(), gp.begin(), gp.end());
        out.line(l);
        for (std::size_t i = 0; i < nodes.size(); ++i)
        {
            Path p = gp;
            p.push_back((std::int64_t)i);
            std::optional<NodeView> nv;
            if (g) { nv.emplace(g->node_at(i)); }
            Line m{31, nv ? (std::int64_t)nv->started() : 0, (std::int64_t)p.size()};
            m.insert(m.end(), p.begin(), p.end());
            out.line(m);
            if (nodes[i]->kind == 1)
            {
                std::optional<GraphView> child;
                if (nv)
                {
                    auto nested = nv->as<SingleNestedGraphNodeView>();
                    if (nested.child_graph_value().has_value()) { child.emplace(nested.child_graph()); }
                }
                dump_flags(out, nodes[i]->children, p, child ? &*child : nullptr);
            }
        }
    }

    void dump_counters(Ctx &ctx, const std::vector<std::unique_ptr<TNode>> &nodes)
    {
        for (const auto &np : nodes)
        {
            if (np->kind == 1 || np->kind == 4) { dump_counters(ctx, np->children); }
            else if (np->kind == 3) { dump_counters(ctx, np->children); }
            else
            {
                auto c = ctx.counters[np->path];
                Line l{30, c[0], c[1], c[2], (std::int64_t)np->path.size()};
                l.insert(l.end(), np->path.begin(), np->path.end());
                ctx.out->line(l);
            }
        }
    }

    // "node[3 'hgv_node'] start failed: hgv boom 7" -> 40 idx phase id
    void report_error(hgv::Out &out, const std::string &w, std::int64_t first_foreign)
    {
        std::int64_t idx = -1, phase = -1, id = -1;
        auto         a = w.find("node[");
        if (a == 0)
        {
            try { idx = std::stoll(w.substr(5)); } catch (...) { idx = -1; }
        }
        auto close = w.find("] ");
        if (close != std::string::npos)
        {
            const std::string rest = w.substr(close + 2);
            if (rest.rfind("start failed: ", 0) == 0) { phase = 0; }
            else if (rest.rfind("evaluate failed: ", 0) == 0) { phase = 1; }
            else if (rest.rfind("stop failed: ", 0) == 0) { phase = 2; }
        }
        auto b = w.find("hgv boom ");
        if (b != std::string::npos)
        {
            try { id = std::stoll(w.substr(b + 9)); } catch (...) { id = -1; }
        }
        // an exception that is not a std::exception carries no text: the root boundary reports
        // "unknown error"; the identity is then that of the first such fault thrown
        if (id < 0 && w.find("unknown error") != std::string::npos) { id = first_foreign; }
        out.line({40, idx, phase, id});
        if (id < 0) { std::fprintf(stderr, "error: %s\n", w.c_str()); }
    }

    void run_case(const hgv::Case &c, hgv::Out &out)
    {
        for (const Line &l : c)
        {
            if (l[0] == 12) { hgv_dyn::run_map_case(c, out); return; }
        }
        Ctx ctx;
        ctx.out = &out;
        std::int64_t start = 1, end = 5, cleanup = 1;
        // the tree: "2 period" plain node, "3" open nested node, "4" close it,
        // "11 k0 k1 .." key source, "8 src" open a switch_ on node src, "9" next branch of it
        struct Frame { std::vector<std::unique_ptr<TNode>> *list; int kind; };   // kind of the owner: 0 root, 1 nested, 3 switch, 4 branch
        std::vector<Frame> stack{{&ctx.root, 0}};
        for (const Line &l : c)
        {
            if (l[0] == 1 && l.size() >= 4) { start = l[1]; end = l[2]; cleanup = l[3]; }
            else if (l[0] == 2 && l.size() >= 2 && stack.back().kind != 3)
            {
                auto n    = std::make_unique<TNode>();
                n->period = l[1];
                stack.back().list->push_back(std::move(n));
            }
            else if (l[0] == 11 && stack.back().kind != 3)
            {
                auto n  = std::make_unique<TNode>();
                n->kind = 2;
                n->keys.assign(l.begin() + 1, l.end());
                stack.back().list->push_back(std::move(n));
            }
            else if (l[0] == 3 && stack.back().kind != 3)
            {
                auto n     = std::make_unique<TNode>();
                n->kind    = 1;
                n->nested  = true;
                TNode *raw = n.get();
                stack.back().list->push_back(std::move(n));
                stack.push_back({&raw->children, 1});
            }
            else if (l[0] == 8 && l.size() >= 2 && stack.back().kind != 3)
            {
                auto n     = std::make_unique<TNode>();
                n->kind    = 3;
                n->src     = l[1];
                TNode *raw = n.get();
                stack.back().list->push_back(std::move(n));
                stack.push_back({&raw->children, 3});
            }
            else if (l[0] == 9)
            {
                if (stack.back().kind == 4) { stack.pop_back(); }
                if (stack.back().kind == 3)
                {
                    auto n     = std::make_unique<TNode>();
                    n->kind    = 4;
                    TNode *raw = n.get();
                    stack.back().list->push_back(std::move(n));
                    stack.push_back({&raw->children, 4});
                }
            }
            else if (l[0] == 4)
            {
                if (stack.back().kind == 4) { stack.pop_back(); }
                if (stack.size() > 1) { stack.pop_back(); }
            }
            else if (l[0] == 5 && l.size() >= 4)
            {
                const std::size_t n = std::min<std::size_t>(l[3], l.size() - 4);
                Fault             f{l[1], l[2], Path(l.begin() + 4, l.begin() + 4 + n)};
                if (l.size() > 4 + n) { f.flavour = l[4 + n]; }
                ctx.faults.push_back(std::move(f));
            }
            else if (l[0] == 6 && l.size() >= 3) { ctx.stops.push_back({l[1], Path(l.begin() + 3, l.begin() + 3 + std::min<std::size_t>(l[2], l.size() - 3))}); }
        }

        Obs obs{&out};
        for (const Line &l : c)
        {
            if (l[0] == 15 && l.size() >= 3) { obs.throws.emplace_back(l[1], l[2]); }
        }
        try
        {
            GraphExecutorBuilder eb;
            eb.graph_builder(build_graph(ctx, ctx.root, {}, false)).start_time(dt(start)).end_time(dt(end)).cleanup_on_error(cleanup != 0)
                .add_lifecycle_observer(&obs);
            {
                GraphExecutorValue executor = eb.make_executor();
                auto               ev       = executor.view();
                try
                {
                    ev.run();
                    out.line({41});
                }
                catch (const std::exception &e) { report_error(out, e.what(), ctx.first_foreign); }
                catch (...) { out.line({40, -1, -1, ctx.first_foreign}); }
                {
                    GraphView rg = ev.graph();
                    dump_flags(out, ctx.root, {}, &rg);
                }
                out.line({42});
            }  // executor released here: the observer sees whatever is stopped now
            out.line({43});
            dump_counters(ctx, ctx.root);
        }
        catch (const std::exception &e)
        {
            out.line({48, 1});
            std::fprintf(stderr, "build error: %s\n", e.what());
        }
    }
}  // namespace

// an exception escaping a noexcept region (e.g. a recorder that no longer catches everything) ends
// in std::terminate: say so distinctively; the case is then reported as a crash with this text
[[noreturn]] void on_terminate()
{
    std::fputs("hgv-terminate: std::terminate called inside the runtime (foreign exception?)\n", stderr);
    std::fflush(stderr);
    std::_Exit(97);
}

int main(int argc, char **argv)
{
    std::set_terminate(on_terminate);
    if (argc < 2) { std::fprintf(stderr, "usage: lifecycle_driver <batch>\n"); return 2; }
    auto     batch = hgv::read_batch(argv[1]);
    hgv::Out out;
    for (const auto &c : batch)
    {
        run_case(c, out);
        out.end_case();
    }
    return 0;
}
