#include <../tests/cpp/test_service_wiring.cpp>
