#include <../tests/cpp/test_reduce.cpp>
