#include <../tests/cpp/test_collection_nodes.cpp>
