// pushq_driver.cpp — family "pushq" (property C16): the REAL push source of
// /repo's tree (QueuePolicyStorage / ConflatingPolicyStorage / PushSourceSenderControl,
// the real-time executor's push_update_pending flag, evaluate_impl's push phase).
//
//   mode 1  sequential histories: sends through the real PushSourceSender (from the
//           evaluation thread or from worker threads), engine cycles one at a time
//           through GraphView::evaluate, graph stop / start, executor request_stop.
//           After every op the observable state is printed; compared line by line
//           with the model (coq/PushQ.v run under the corresponding schedule).
//   mode 2  free-running stress: 1-8 producer threads against executor.run() on a
//           real-time executor.  Every observable event takes a ticket from one
//           global atomic counter; the recorded history is printed and checked by
//           the model's acceptor (pushq_history_ok).  Only ordering / exactly-once /
//           capacity / refusal-reason claims; no timing upper bound except the
//           stall detector (nothing delivered for STALL_S seconds with work pending
//           and no stop requested = lost wake-up).
//   mode 3  scheduled interleavings (needs the sync points of hooks/pushq.patch;
//           without them the driver prints a single line "90 0" = unsupported).
#include "hgv_io.h"

#include <hgraph/lib/std/standard_types.h>
#include <hgraph/lib/testing/runtime_support.h>
#include <hgraph/runtime/lifecycle_observer.h>
#include <hgraph/runtime/runtime.h>
#include <hgraph/types/metadata/type_registry.h>
#include <hgraph/types/static_node.h>
#include <hgraph/types/static_schema.h>
#include <hgraph/types/type_resolution.h>
#include <hgraph/util/verif_hook.h>

#include <algorithm>
#include <atomic>
#include <chrono>
#include <condition_variable>
#include <cstdlib>
#include <cstring>
#include <deque>
#include <functional>
#include <future>
#include <map>
#include <memory>
#include <mutex>
#include <optional>
#include <thread>
#include <vector>

namespace hgraph::stdlib { void register_json_operators() {} }

using namespace hgraph;
using hgv::Line;
using i64 = std::int64_t;

namespace
{
    // stall detector (lost wake-up / sender blocked for ever), seconds; HGV_PUSHQ_STALL_S shortens it for
    // mutation runs, where many cases stall
    const int STALL_S = [] {
        const char *e = std::getenv("HGV_PUSHQ_STALL_S");
        const int   v = e != nullptr ? std::atoi(e) : 0;
        return v > 0 ? v : 15;
    }();

    i64      us(DateTime t) { return t.time_since_epoch().count(); }
    DateTime dt(i64 v) { return DateTime{TimeDelta{v}}; }

    // ------------------------------------------------------------------ where a worker's send call has got to
    // 0 not started, 1 about to call the sender, 2 past the sender control's stop check, right before the
    // policy's admission critical section (sync point pushq.*.before_admit of hooks/pushq.patch).  Mode 1
    // may only record a sender as "blocked" once it is known to be past the stop check: a worker that was
    // merely slow to start would otherwise see a later request_stop and return false (load-dependent).
    thread_local std::atomic<int> *tl_progress = nullptr;
#ifdef HGRAPH_VERIF_PUSHQ_POINTS
    constexpr int PARKED_PROGRESS = 2;
    void sync_cb(const char *name, void *)
    {
        if (tl_progress == nullptr) { return; }
        if (std::strcmp(name, "pushq.send_blocking.before_admit") == 0 || std::strcmp(name, "pushq.try_send.before_admit") == 0)
        {
            tl_progress->store(2, std::memory_order_release);
        }
    }
#else
    constexpr int PARKED_PROGRESS = 1;  // best effort without the sync points
#endif

    // ------------------------------------------------------------------ a worker thread per producer
    class Worker
    {
      public:
        Worker() : thread_([this] { loop(); }) {}
        ~Worker()
        {
            {
                std::lock_guard lock{mutex_};
                done_ = true;
            }
            cv_.notify_all();
            if (thread_.joinable()) { thread_.join(); }
        }
        std::future<i64> submit(std::function<i64()> fn)
        {
            std::packaged_task<i64()> task{std::move(fn)};
            auto                      fut = task.get_future();
            {
                std::lock_guard lock{mutex_};
                tasks_.push_back(std::move(task));
            }
            cv_.notify_all();
            return fut;
        }

      private:
        void loop()
        {
            for (;;)
            {
                std::packaged_task<i64()> task;
                {
                    std::unique_lock lock{mutex_};
                    cv_.wait(lock, [this] { return done_ || !tasks_.empty(); });
                    if (tasks_.empty()) { return; }
                    task = std::move(tasks_.front());
                    tasks_.pop_front();
                }
                task();
            }
        }
        std::mutex                            mutex_;
        std::condition_variable               cv_;
        std::deque<std::packaged_task<i64()>> tasks_;
        bool                                  done_{false};
        std::thread                           thread_;
    };

    // ------------------------------------------------------------------ the graph: push source -> recording sink
    struct Delivery
    {
        i64              time{0};
        i64              stamp{0};
        i64              cycle_stamp{0};
        std::vector<i64> values;
    };

    struct World
    {
        int                              policy{0};  // 0 queue, 1 burst, 2 conflating
        int                              extra{0};   // further (idle) push source nodes in the same root graph: they share the engine's one pending flag
        int                              vkind{0};   // 0 scalar TS<int>, 1 collection TSD<str, TS<int>> (queue / conflating)
        std::size_t                      cap{0};
        std::vector<PushSourceSender>    senders;    // one per start (epoch)
        std::vector<Delivery>            deliveries;
        std::mutex                       deliveries_mutex;
        std::atomic<i64>                 ticket{1};
        std::atomic<i64>                 cycle_stamp{0};
        std::atomic<i64>                 cycles{0};
        std::atomic<i64>                 source_evals{0};
        std::function<void()>            on_started;  // stress: release the producers
        std::optional<GraphExecutorValue> executor;
    };

    struct Obs : LifecycleObserver
    {
        World *w;
        explicit Obs(World *world) : w(world) {}
        void on_before_graph_evaluation(const GraphView &) override
        {
            w->cycle_stamp.store(w->ticket.fetch_add(1), std::memory_order_release);
            w->cycles.fetch_add(1);
        }
        void on_before_node_evaluation(const NodeView &n) override
        {
            if (n.node_index() == 0) { w->source_evals.fetch_add(1); }
        }
    };

    void build_world(World &w, Obs &obs, DateTime start, DateTime end, TimeDelta slice)
    {
        const auto *ts_int   = ts_type<TS<Int>>();
        const auto *ts_tuple = ts_type<TS<HomogeneousTuple<Int>>>();
        auto       &registry = TypeRegistry::instance();
        const auto *tsd_int  = registry.tsd(registry.register_scalar<Str>("str"), registry.ts(registry.register_scalar<Int>("int")));
        if (w.vkind == 1 && w.policy == 1) { w.policy = 0; }  // burst needs a tuple output
        const auto *out_ts   = w.vkind == 1 ? tsd_int : (w.policy == 1 ? ts_tuple : ts_int);
        const auto *in_schema = hgraph::testing::single_input_schema(*out_ts);

        PushSourcePolicy policy = w.policy == 0   ? make_push_source_queue_policy(*out_ts, w.cap)
                                  : w.policy == 1 ? make_push_source_burst_policy(*ts_tuple, w.cap)
                                                  : make_push_source_conflating_policy(*out_ts);
        PushSourceNodeExtension extension;
        World                  *pw = &w;
        extension.on_start = [pw](PushSourceSender sender, const NodeView &, DateTime) {
            pw->senders.push_back(std::move(sender));
            if (pw->on_started) { pw->on_started(); }
        };

        NodeTypeMetaData sink_schema;
        sink_schema.display_name = "hgv_pushq_sink";
        sink_schema.input_schema = in_schema;
        sink_schema.node_kind    = NodeKind::Sink;
        NodeCallbacks sink_cb;
        const bool    tuple = w.policy == 1;
        const bool    dict  = w.vkind == 1;
        sink_cb.evaluate = [pw, tuple, dict](const NodeView &view, DateTime t) {
            if (dict) { return; }
            auto     root   = view.input(t);
            auto     bundle = root.as_bundle();
            auto     in     = bundle[0];
            Delivery d;
            d.time        = us(t);
            d.cycle_stamp = pw->cycle_stamp.load(std::memory_order_acquire);
            if (tuple)
            {
                auto list = in.value().as_list();
                for (std::size_t i = 0; i < list.size(); ++i) { d.values.push_back(list[i].template checked_as<Int>()); }
            }
            else { d.values.push_back(in.value().template checked_as<Int>()); }
            d.stamp = pw->ticket.fetch_add(1);
            std::lock_guard lock{pw->deliveries_mutex};
            pw->deliveries.push_back(std::move(d));
        };

        GraphBuilder gb;
        gb.add_node(make_push_source_node_with_view(*out_ts, policy, std::move(extension)));
        // idle queue sources after the observed one: every push node of the prefix is evaluated in a pushed
        // cycle, and the observed source's re-arm must survive their evaluation
        for (int i = 0; i < w.extra; ++i)
        {
            gb.add_node(make_push_source_node(*ts_int, make_push_source_queue_policy(*ts_int, 0), [](PushSourceSender) {}));
        }
        gb.add_node(NodeBuilder::native(std::move(sink_schema), std::move(sink_cb),
                                        hgraph::testing::single_input_endpoint(*in_schema, *out_ts)));
        gb.add_edge(GraphEdge{.source_node = make_graph_edge_source(0), .source_path = {}, .target_node = (std::size_t)(1 + w.extra), .target_path = {0}});

        GraphExecutorBuilder eb;
        eb.graph_builder(std::move(gb))
            .mode(GraphExecutorMode::RealTime)
            .start_time(start)
            .end_time(end)
            .max_wait_slice(slice)
            .add_lifecycle_observer(&obs);
        w.executor.emplace(eb.make_executor());
    }

    i64 pending_items(World &w)
    {
        auto g = w.executor->view().graph();
        auto m = g.node_at(0).inspection_metrics().pending_items;
        return m.has_value() ? (i64)*m : -1;
    }

    i64 flag(World &w) { return w.executor->view().push_queue_engine().is_push_update_pending() ? 1 : 0; }

    // ------------------------------------------------------------------ mode 1: sequential histories
    // result codes of a send: 1 accepted, 0 refused/failed, 2 logic_error (blocking wait on the
    // evaluation thread), 3 blocked (still waiting), 4 other exception, 8 skipped by the harness.
    // collection deltas of the dict vocabulary: v >= 0 sets key v / 100 to v % 100; v == -1 the empty delta;
    // v <= -10 removes key (-v - 10) (lenient: removing an absent key is a no-op)
    std::string dict_key(i64 k) { return "k" + std::to_string(k); }
    Value make_value(int vkind, i64 v)
    {
        if (vkind == 0) { return Value{Int{v}}; }
        using namespace std::string_literals;
        if (v >= 0) { return dict_delta<Str, TS<Int>>({{dict_key(v / 100), Int{v % 100}}}); }
        if (v <= -10) { return dict_delta<Str, TS<Int>>({}, {dict_key(-v - 10)}); }
        return dict_delta<Str, TS<Int>>({});
    }

    i64 do_send(const PushSourceSender &s, i64 v, bool blocking, int vkind = 0)
    {
        try
        {
            return blocking ? (s.send_blocking(make_value(vkind, v)) ? 1 : 0) : (s.try_send(make_value(vkind, v)) ? 1 : 0);
        }
        catch (const std::logic_error &) { return 2; }
        catch (const std::exception &e)
        {
            std::fprintf(stderr, "send: %s\n", e.what());
            return 4;
        }
    }

    // the dict output's current value as key value key value ... (keys ascending)
    Line dict_state(const GraphView &graph, DateTime t)
    {
        Line l;
        auto o = graph.node_at(0).output(t);
        if (!o.valid()) { return l; }
        Value                copy{o.value()};
        std::map<i64, i64> m;
        for (const auto &[key, value] : copy.view().as_map())
        {
            const auto &ks = key.template checked_as<Str>();
            m[std::atoll(ks.c_str() + 1)] = value.template checked_as<Int>();
        }
        for (auto &[k, x] : m) { l.push_back(k); l.push_back(x); }
        return l;
    }

    void run_sequential(const hgv::Case &c, hgv::Out &out)
    {
        World w;
        w.policy = (int)c[0][1];
        w.cap    = (std::size_t)c[0][2];
        w.vkind  = c[0].size() > 4 && c[0][4] == 1 ? 1 : 0;
        w.extra  = c[0].size() > 5 ? (int)std::clamp<i64>(c[0][5], 0, 3) : 0;
        const int         vkind = w.vkind;
        const std::size_t nprod = (std::size_t)std::max<i64>(1, c[0][3]);
        Obs               obs{&w};
        const i64         t0 = 1'000'000;
        build_world(w, obs, dt(t0), dt(t0 + 1'000'000'000), TimeDelta{10'000'000});
        auto view  = w.executor->view();
        auto graph = view.graph();

        std::vector<std::unique_ptr<Worker>> workers(nprod + 1);
        bool                                 started = false;
        i64                                  now     = t0;
        // at most one blocked sender at a time
        std::optional<std::future<i64>> blocked;
        i64                             blocked_idx = -1, blocked_prod = -1;

        auto settle_blocked = [&](bool expect_completion) {
            if (!blocked) { return; }
            const auto wait = expect_completion ? std::chrono::seconds{STALL_S} : std::chrono::milliseconds{25};
            if (blocked->wait_for(wait) == std::future_status::ready)
            {
                const i64 r = blocked->get();
                blocked.reset();
                out.line({7, blocked_idx, r});
                blocked_prod = -1;
            }
            else if (expect_completion) { out.line({7, blocked_idx, 3}); }  // still blocked although it should not be
        };
        bool stop_requested = false;
        auto room = [&] {
            if (!started) { return true; }  // a stopped source releases blocked senders
            if (w.policy == 2 || w.cap == 0) { return true; }
            return pending_items(w) < (i64)w.cap;
        };
        // the harness's expectation that a blocking send has to wait (decides only how long it is
        // given before it is recorded as blocked; a wrong guess cannot turn into a false alarm)
        auto would_block = [&](bool blocking, i64 h) { return blocking && h == 0 && started && !stop_requested && !room(); };

        i64 idx = 0;
        for (std::size_t li = 1; li < c.size(); ++li, ++idx)
        {
            const Line &l = c[li];
            if (l[0] == -1) { break; }
            const i64 code = l[0];
            if (code == 1 || code == 2)
            {
                const i64  p = l.size() > 1 ? l[1] : 0, v = l.size() > 2 ? l[2] : 0, h = l.size() > 3 ? l[3] : 0;
                const bool blocking = code == 2;
                // sender handle: h = 0 the sender of the latest start, h = 1 the one before (stale), or a
                // default-constructed sender when there is none
                PushSourceSender s;
                if (h == 0 && !w.senders.empty()) { s = w.senders.back(); }
                else if (h == 1 && w.senders.size() >= 2) { s = w.senders[w.senders.size() - 2]; }
                i64 r;
                if (p <= 0 || (std::size_t)p > nprod) { r = do_send(s, v, blocking, vkind); }
                else if (blocked && (blocked_prod == p || would_block(blocking, h))) { r = 8; }
                else
                {
                    if (!workers[p]) { workers[p] = std::make_unique<Worker>(); }
                    auto progress = std::make_shared<std::atomic<int>>(0);
                    auto fut      = workers[p]->submit([s, v, blocking, progress, vkind] {
                        tl_progress = progress.get();
                        progress->store(1, std::memory_order_release);
                        const i64 res = do_send(s, v, blocking, vkind);
                        tl_progress = nullptr;
                        return res;
                    });
                    const bool may_block = would_block(blocking, h);
                    if (!may_block)
                    {
                        if (fut.wait_for(std::chrono::seconds{STALL_S}) == std::future_status::ready) { r = fut.get(); }
                        else { r = 3; }
                    }
                    else
                    {
                        // it has to park: give it 25 ms AFTER it is known to be past the stop check
                        const auto t_begin = std::chrono::steady_clock::now();
                        std::optional<std::chrono::steady_clock::time_point> t_parked;
                        r = 3;
                        for (;;)
                        {
                            if (fut.wait_for(std::chrono::milliseconds{1}) == std::future_status::ready) { r = fut.get(); break; }
                            const auto t = std::chrono::steady_clock::now();
                            if (!t_parked && progress->load(std::memory_order_acquire) >= PARKED_PROGRESS) { t_parked = t; }
                            if (t_parked && t - *t_parked > std::chrono::milliseconds{25}) { break; }
                            if (t - t_begin > std::chrono::seconds{STALL_S}) { break; }
                        }
                    }
                    if (r == 3)
                    {
                        blocked      = std::move(fut);
                        blocked_idx  = idx;
                        blocked_prod = p;
                    }
                }
                out.line({code, idx, r, started ? pending_items(w) : 0, flag(w)});
                // a send frees no slot: the parked sender (if any) must stay parked
                if (r != 3) { settle_blocked(!started); }
            }
            else if (code == 3)
            {
                if (!started) { out.line({13, idx}); continue; }
                now += std::max<i64>(1, l.size() > 1 ? l[1] : 1);
                const i64         se0 = w.source_evals.load();
                i64               err = 0;
                try { graph.evaluate(dt(now)); }
                catch (const std::exception &e)
                {
                    err = 1;
                    std::fprintf(stderr, "evaluate: %s\n", e.what());
                }
                {
                    // the delivery of this cycle, read off the push source's own output (a graph
                    // that was stopped has its edges torn down, so a sink would see nothing after
                    // a restart; restart is "not supported by design", see graph.cpp start_impl)
                    auto o = graph.node_at(0).output(dt(now));
                    std::optional<Line> d;
                    if (o.valid() && o.last_modified_time() == dt(now))
                    {
                        d = Line{5, now - t0};
                        if (vkind == 1)
                        {
                            for (i64 x : dict_state(graph, dt(now))) { d->push_back(x); }
                        }
                        else if (w.policy == 1)
                        {
                            auto list = o.value().as_list();
                            for (std::size_t i = 0; i < list.size(); ++i) { d->push_back(list[i].checked_as<Int>()); }
                        }
                        else { d->push_back(o.value().checked_as<Int>()); }
                    }
                    // a delivery freed a slot and notified: the parked sender completes now; otherwise it
                    // stays parked (decided from the delivery, which only this thread writes - not from a
                    // pending_items reading that races with the woken sender)
                    settle_blocked(d.has_value());
                    if (d) { out.line(*d); }
                }
                out.line({3, idx, err, w.source_evals.load() - se0, pending_items(w), flag(w)});
            }
            else if (code == 4)
            {
                if (!started) { out.line({14, idx}); continue; }
                i64 err = 0;
                try { graph.stop(dt(now)); }
                catch (const std::exception &e)
                {
                    err = 1;
                    std::fprintf(stderr, "stop: %s\n", e.what());
                }
                started = false;
                settle_blocked(true);
                out.line({4, idx, err, w.senders.empty() ? 0 : (w.senders.back().valid() ? 1 : 0), flag(w)});
            }
            else if (code == 5)
            {
                if (started) { out.line({15, idx}); continue; }
                i64 err = 0;
                try { graph.start(dt(now)); }
                catch (const std::exception &e)
                {
                    err = 1;
                    std::fprintf(stderr, "start: %s\n", e.what());
                }
                started = err == 0;
                out.line({6, idx, err, started ? pending_items(w) : 0, flag(w), w.senders.empty() ? 0 : (w.senders.back().valid() ? 1 : 0)});
            }
            else if (code == 6)
            {
                view.request_stop();
                stop_requested = true;
                out.line({9, idx, w.senders.empty() ? 0 : (w.senders.back().valid() ? 1 : 0), flag(w)});
            }
            else { out.line({99, idx}); }
        }
        if (started)
        {
            try { graph.stop(dt(now)); }
            catch (...) {}
            started = false;
        }
        if (blocked)
        {
            // the final stop releases any blocked sender
            if (blocked->wait_for(std::chrono::seconds{STALL_S}) == std::future_status::ready) { out.line({7, blocked_idx, blocked->get()}); }
            else
            {
                out.line({7, blocked_idx, 3});
                out.end_case();
                std::fflush(stdout);
                std::_Exit(3);  // cannot join a thread stuck inside the source
            }
        }
        workers.clear();
        w.senders.clear();
        w.executor.reset();
    }

    // ------------------------------------------------------------------ mode 2: free-running stress
    // Virtual wall clock (include/hgraph/util/verif_hook.h; HGRAPH_VERIF=1 is set in main): the real clock
    // rounded down to a granule (coarse), or frozen at its first reading.  With a backlog the loop then runs
    // consecutive no-wait cycles at a wall clock that does not move: the engine must still advance by at
    // least MIN_TD per cycle (advance_realtime: max(wall, last + MIN_TD)).
    std::atomic<i64> g_clock_granule{0};   // 0 real clock, > 0 granule in microseconds, < 0 frozen
    std::atomic<i64> g_clock_frozen{0};
    i64 virtual_clock_cb(void *)
    {
        const i64 real = us(hgraph::testing::wall_now());
        const i64 g    = g_clock_granule.load(std::memory_order_acquire);
        if (g > 0) { return real / g * g; }
        if (g < 0) { return g_clock_frozen.load(std::memory_order_acquire); }
        return real;
    }

    struct SendRec { i64 p, k, v, blocking, result, b, a; };

    std::uint64_t mix(std::uint64_t x)
    {
        x += 0x9e3779b97f4a7c15ULL;
        x = (x ^ (x >> 30)) * 0xbf58476d1ce4e5b9ULL;
        x = (x ^ (x >> 27)) * 0x94d049bb133111ebULL;
        return x ^ (x >> 31);
    }

    void run_stress(const hgv::Case &c, hgv::Out &out)
    {
        // [2, policy, cap, nprod, nmsg, blocking_pct, pace, stop_mode, seed]
        World w;
        w.policy            = (int)c[0][1];
        w.cap               = (std::size_t)c[0][2];
        const i64 nprod     = std::clamp<i64>(c[0][3], 1, 8);
        const i64 nmsg      = std::clamp<i64>(c[0][4], 1, 2000);
        const i64 block_pct = c[0][5];
        const i64 pace      = c[0][6];       // 0 flat out, 1 yield between sends, 2 short random sleeps, 3 bursts then pauses
        const i64 stop_mode = c[0][7];       // 0 stop once everything accepted was delivered; 1 stop in mid-stream
        const std::uint64_t seed = (std::uint64_t)c[0][8];
        Obs       obs{&w};

        // watchdog: a run that deadlocks (e.g. a sender stuck for ever inside the source keeps graph stop
        // waiting for quiescence) must not hang the harness: report and leave
        std::atomic<bool> case_done{false};
        std::thread       watchdog([&] {
            const auto limit = std::chrono::steady_clock::now() + std::chrono::seconds{4 * STALL_S + 20};
            while (!case_done.load())
            {
                if (std::chrono::steady_clock::now() > limit)
                {
                    std::fprintf(stderr, "pushq stress case deadlocked\n");
                    out.line({96, 1});
                    out.end_case();
                    std::fflush(stdout);
                    std::_Exit(5);
                }
                std::this_thread::sleep_for(std::chrono::milliseconds{20});
            }
        });
        std::promise<void>       started_promise;
        std::shared_future<void> started = started_promise.get_future().share();
        w.on_started = [&] { started_promise.set_value(); };

        const i64 clock_mode = c[0].size() > 9 ? c[0][9] : 0;
        w.extra              = c[0].size() > 10 ? (int)std::clamp<i64>(c[0][10], 0, 3) : 0;
        g_clock_granule.store(clock_mode, std::memory_order_release);
        g_clock_frozen.store(us(hgraph::testing::wall_now()), std::memory_order_release);
        if (clock_mode != 0) { verif::hooks().wall_clock.store(&virtual_clock_cb, std::memory_order_release); }
        const DateTime start = clock_mode != 0 ? dt(virtual_clock_cb(nullptr)) : hgraph::testing::wall_now();
        // the only wake-ups are pushes and the stop request: no slice time-outs, no end-of-run
        build_world(w, obs, start, start + TimeDelta{3'600'000'000LL}, TimeDelta{3'600'000'000LL});
        auto view = w.executor->view();

        std::vector<std::vector<SendRec>> logs((std::size_t)nprod);
        std::atomic<i64>                  accepted{0}, calls{0}, finished{0};
        std::atomic<bool>                 run_error{false};
        std::atomic<i64>                  run_returned{0};
        std::thread                       runner([&] {
            try { view.run(); }
            catch (const std::exception &e)
            {
                run_error = true;
                std::fprintf(stderr, "run: %s\n", e.what());
            }
            run_returned.store(w.ticket.fetch_add(1));
        });
        started.wait();
        PushSourceSender sender = w.senders.back();

        std::vector<std::thread> producers;
        for (i64 p = 0; p < nprod; ++p)
        {
            producers.emplace_back([&, p] {
                auto &log = logs[(std::size_t)p];
                log.reserve((std::size_t)nmsg);
                for (i64 k = 0; k < nmsg; ++k)
                {
                    const std::uint64_t r        = mix(seed * 1315423911ULL + (std::uint64_t)p * 2654435761ULL + (std::uint64_t)k);
                    const bool          blocking = (i64)(r % 100) < block_pct;
                    const i64           v        = (p + 1) * 1'000'000 + k;
                    SendRec             rec{p, k, v, blocking, 0, 0, 0};
                    rec.b      = w.ticket.fetch_add(1);
                    rec.result = do_send(sender, v, blocking);
                    rec.a      = w.ticket.fetch_add(1);
                    if (rec.result == 1) { accepted.fetch_add(1); }
                    calls.fetch_add(1);
                    log.push_back(rec);
                    if (pace == 1) { std::this_thread::yield(); }
                    else if (pace == 2) { std::this_thread::sleep_for(std::chrono::microseconds{(r >> 8) % 300}); }
                    else if (pace == 3 && ((r >> 8) % 16) == 0) { std::this_thread::sleep_for(std::chrono::microseconds{500 + (r >> 16) % 2000}); }
                }
                finished.fetch_add(1);
            });
        }

        // pending_items samples (QueuePolicyStorage::pending_items takes the queue mutex)
        std::vector<std::pair<i64, i64>> samples;
        std::atomic<bool>                sampling{true};
        std::thread                      sampler([&] {
            auto g = view.graph();
            while (sampling.load())
            {
                auto      m = g.node_at(0).inspection_metrics().pending_items;
                const i64 s = w.ticket.fetch_add(1);
                if (m.has_value() && samples.size() < 1500) { samples.emplace_back(s, (i64)*m); }
                std::this_thread::sleep_for(std::chrono::microseconds{40});
            }
        });

        i64 stop_b = 0, stop_r = 0, stalled = 0;
        auto delivered_count = [&] {
            std::lock_guard lock{w.deliveries_mutex};
            i64             n = 0;
            for (auto &d : w.deliveries) { n += w.policy == 2 ? 1 : (i64)d.values.size(); }
            return n;
        };
        if (stop_mode == 1)
        {
            // stop in mid-stream: after about a third of the traffic was accepted
            const i64 target = std::max<i64>(1, nprod * nmsg / 3);
            const auto t_lim = std::chrono::steady_clock::now() + std::chrono::seconds{STALL_S};
            while (accepted.load() < target && std::chrono::steady_clock::now() < t_lim) { std::this_thread::yield(); }
            stop_b = w.ticket.fetch_add(1);
            view.request_stop();
            stop_r = w.ticket.fetch_add(1);
        }
        else
        {
            // run "long enough": until every producer is through and everything accepted is delivered.
            // Progress = a send call returned or a value was delivered; no progress for STALL_S seconds
            // with work outstanding is a stall (a lost wake-up / a sender blocked for ever): the stop
            // request below then releases whoever is stuck, so the harness itself never hangs.
            auto last_progress = std::chrono::steady_clock::now();
            i64  last          = -1;
            for (;;)
            {
                const bool producers_done = finished.load() == nprod;
                const i64  n              = delivered_count();
                bool       done;
                if (w.policy == 2) { done = producers_done && pending_items(w) == 0 && flag(w) == 0; }
                else { done = producers_done && n >= accepted.load(); }
                if (done) { break; }
                const i64 progress = n + calls.load();
                if (progress != last)
                {
                    last          = progress;
                    last_progress = std::chrono::steady_clock::now();
                }
                else if (std::chrono::steady_clock::now() - last_progress > std::chrono::seconds{STALL_S})
                {
                    stalled = 1;
                    break;
                }
                std::this_thread::sleep_for(std::chrono::microseconds{200});
            }
            stop_b = w.ticket.fetch_add(1);
            view.request_stop();
            stop_r = w.ticket.fetch_add(1);
        }
        // a stalled run may have left senders blocked in send_blocking: the stop releases them once the
        // run loop has left; give the run a moment, then join
        for (auto &t : producers) { t.join(); }
        sampling = false;
        sampler.join();
        runner.join();
        const i64 stop_e = run_returned.load();
        // sends after the run returned must all be refused
        std::vector<SendRec> late;
        for (i64 k = 0; k < 3; ++k)
        {
            SendRec rec{nprod, k, 9'000'000 + k, k % 2, 0, 0, 0};
            rec.b      = w.ticket.fetch_add(1);
            rec.result = do_send(sender, rec.v, rec.blocking != 0);
            rec.a      = w.ticket.fetch_add(1);
            late.push_back(rec);
        }

        out.line({23, stop_b, stop_r, stop_e, w.cycles.load(), stalled, run_error.load() ? 1 : 0, stop_mode});
        for (auto &log : logs)
        {
            for (auto &r : log) { out.line({20, r.p, r.k, r.v, r.blocking, r.result, r.b, r.a}); }
        }
        for (auto &r : late) { out.line({20, r.p, r.k, r.v, r.blocking, r.result, r.b, r.a}); }
        for (auto &d : w.deliveries)
        {
            Line l{21, d.time - us(start), d.cycle_stamp, d.stamp};
            for (i64 x : d.values) { l.push_back(x); }
            out.line(l);
        }
        for (auto &s : samples) { out.line({22, s.first, s.second}); }
        sender = PushSourceSender{};
        w.senders.clear();
        w.executor.reset();
        verif::hooks().wall_clock.store(nullptr, std::memory_order_release);
        case_done = true;
        watchdog.join();
    }
}  // namespace

int main(int argc, char **argv)
{
    if (argc < 2) { std::fprintf(stderr, "usage: pushq_driver <batch>\n"); return 2; }
    setenv("HGRAPH_VERIF", "1", 1);   // enables the wall-clock provider of verif_hook.h (installed per case)
#ifdef HGRAPH_VERIF_PUSHQ_POINTS
    verif::hooks().sync_point.store(&sync_cb, std::memory_order_release);
#endif
    auto     batch = hgv::read_batch(argv[1]);
    hgv::Out out;
    for (const auto &c : batch)
    {
        if (c.empty() || c[0].size() < 4) { out.line({98}); out.end_case(); continue; }
        try
        {
            if (c[0][0] == 1) { run_sequential(c, out); }
            else if (c[0][0] == 2 && c[0].size() >= 9) { run_stress(c, out); }
            else { out.line({90, 0}); }
        }
        catch (const std::exception &e)
        {
            out.line({97});
            std::fprintf(stderr, "driver error: %s\n", e.what());
        }
        out.end_case();
    }
    return 0;
}
