#include <../tests/cpp/test_component.cpp>
