#include <../tests/cpp/test_service_push_sources.cpp>
