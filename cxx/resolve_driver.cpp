// resolve_driver.cpp — family "resolve" (property C19): operator overload
// resolution of /repo's working tree, driven through its public API.
//
// For each case the driver builds overload families at run time from the token
// encoding of gen/resolve.py (TypePattern / ScalarPattern constructors), ranks
// every overload with operator_dispatch_detail::operator_rank (what every
// registration path of the tree does), registers the family under a fresh
// operator name once per requested registration order in the process-wide
// OperatorRegistry and resolves every query (argument tuple, optional requested
// output, optional caller-supplied bindings and size hints).  It prints outcome
// kind, selected label, effective rank (from the WiringResolutionEvent of the
// wiring observer), the bindings (sorted) and the resolved output schema as a
// structural integer encoding.  Each overload is also resolved ALONE (solo
// registration) so the property oracle can see which candidates match and at
// which effective rank without any model.  coq/Resolve.v must print the same.
#include "hgv_io.h"

#include <hgraph/types/graph_wiring.h>
#include <hgraph/types/metadata/type_registry.h>
#include <hgraph/types/metadata/value_plan_factory.h>
#include <hgraph/types/operator_dispatch.h>
#include <hgraph/types/type_pattern.h>
#include <hgraph/types/type_resolution.h>
#include <hgraph/types/value/value.h>
#include <hgraph/types/wiring_observer.h>

#include <algorithm>
#include <map>
#include <optional>
#include <stdexcept>
#include <string>

namespace hgraph::stdlib { void register_json_operators() {} }

using namespace hgraph;
using hgv::Line;

namespace
{
    struct Malformed : std::runtime_error { using std::runtime_error::runtime_error; };

    std::int64_t g_case = 0;

    struct Cur
    {
        const Line &l;
        std::size_t i{0};
        std::int64_t next()
        {
            if (i >= l.size()) { throw Malformed("overrun"); }
            return l[i++];
        }
        std::size_t count()
        {
            const std::int64_t n = next();
            if (n < 0 || n > 16) { throw Malformed("count"); }
            return static_cast<std::size_t>(n);
        }
        bool done() const { return i >= l.size(); }
    };

    // ---------------------------------------------------------------- atoms
    const ValueTypeMetaData *atom(std::int64_t a)
    {
        switch (a)
        {
            case 0: return scalar_descriptor<Bool>::value_meta();
            case 1: return scalar_descriptor<Int>::value_meta();
            case 2: return scalar_descriptor<Float>::value_meta();
            case 3: return scalar_descriptor<Str>::value_meta();
            case 4: return scalar_descriptor<std::int32_t>::value_meta();
        }
        throw Malformed("atom");
    }
    std::int64_t atom_id(const ValueTypeMetaData *m)
    {
        for (std::int64_t a = 0; a <= 4; ++a) { if (atom(a) == m) { return a; } }
        return -1;
    }
    std::string var_name(std::int64_t v) { return "v" + std::to_string(v); }
    std::int64_t var_id(const std::string &s) { return s.size() > 1 && s[0] == 'v' ? std::stoll(s.substr(1)) : -1; }
    std::string field_name(std::int64_t f) { return "f" + std::to_string(f); }
    std::int64_t field_id(const char *s) { return s != nullptr && s[0] == 'f' ? std::stoll(std::string{s + 1}) : -1; }
    std::string bundle_name(std::int64_t n) { return "hgvB" + std::to_string(g_case) + "_" + std::to_string(n); }
    std::string scalar_bundle_name(std::int64_t n) { return "S" + std::to_string(g_case) + "_" + std::to_string(n); }

    std::int64_t bundle_id(const char *s)
    {
        if (s == nullptr) { return 0; }
        const std::string x{s};
        const auto        p = x.rfind('_');
        // a dereferenced named bundle is renamed "<name>_deref" by the registry
        if (p != std::string::npos && x.substr(p + 1) == "deref") { return -1; }
        return p == std::string::npos ? -1 : std::stoll(x.substr(p + 1));
    }

    // ---------------------------------------------------------------- concrete types
    const ValueTypeMetaData *parse_sty(Cur &c)
    {
        auto &r = TypeRegistry::instance();
        switch (c.next())
        {
            case 1: return atom(c.next());
            case 2:
            {
                const std::size_t                      n = c.count();
                std::vector<const ValueTypeMetaData *> fs;
                for (std::size_t k = 0; k < n; ++k) { fs.push_back(parse_sty(c)); }
                return r.tuple(fs);
            }
            case 3: return r.list(parse_sty(c), 0, true);
            case 4: return r.set(parse_sty(c));
            case 5:
            {
                const auto *k = parse_sty(c);
                const auto *v = parse_sty(c);
                return r.map(k, v);
            }
            case 7:
            {
                // named (nominal) scalar Bundle with its declared parents, in declaration order; every bundle of the
                // harness has the one field {id: int}; same id = same ancestry within a case (generator invariant)
                const std::int64_t id = c.next();
                if (id < 0) { throw Malformed("bundle id"); }
                const std::size_t                      n = c.count();
                std::vector<const ValueTypeMetaData *> parents;
                for (std::size_t k = 0; k < n; ++k) { parents.push_back(parse_sty(c)); }
                const std::vector<std::pair<std::string, const ValueTypeMetaData *>> fields{{"id", atom(1)}};
                return r.bundle("hgv", scalar_bundle_name(id), fields, parents);
            }
        }
        throw Malformed("sty");
    }

    const TSValueTypeMetaData *parse_tty(Cur &c)
    {
        auto &r = TypeRegistry::instance();
        switch (c.next())
        {
            case 10: return r.ts(parse_sty(c));
            case 11: return r.tss(parse_sty(c));
            case 12:
            {
                const std::int64_t n = c.next();
                if (n < 0 || n > 1000) { throw Malformed("size"); }
                return r.tsl(parse_tty(c), static_cast<std::size_t>(n));
            }
            case 13:
            {
                const auto *k = parse_sty(c);
                return r.tsd(k, parse_tty(c));
            }
            case 14:
            {
                const std::int64_t p = c.next(), m = c.next();
                if (p < 0 || p > 1000 || m < 0 || m > 1000) { throw Malformed("window"); }
                return r.tsw(parse_sty(c), static_cast<std::size_t>(p), static_cast<std::size_t>(m));
            }
            case 15:
            {
                const std::int64_t name = c.next();
                if (name < 0) { throw Malformed("bundle name"); }
                const std::size_t  n    = c.count();
                std::vector<std::pair<std::string, const TSValueTypeMetaData *>> fs;
                for (std::size_t k = 0; k < n; ++k)
                {
                    const std::int64_t f = c.next();
                    fs.emplace_back(field_name(f), parse_tty(c));
                }
                return name == 0 ? r.un_named_tsb(fs) : r.tsb(bundle_name(name), fs);
            }
            case 16: return r.ref(parse_tty(c));
            case 17: return r.signal();
        }
        throw Malformed("tty");
    }

    void enc_sty(const ValueTypeMetaData *m, Line &o)
    {
        if (m == nullptr) { o.push_back(-1); return; }
        if (const auto a = atom_id(m); a >= 0) { o.push_back(1); o.push_back(a); return; }
        const auto kind = m->try_value_kind();
        if (!kind.has_value()) { o.push_back(-2); return; }
        switch (*kind)
        {
            case ValueTypeKind::Tuple:
                o.push_back(2);
                o.push_back(static_cast<std::int64_t>(m->field_count));
                for (std::size_t k = 0; k < m->field_count; ++k) { enc_sty(m->fields[k].type, o); }
                return;
            case ValueTypeKind::List:
                if (m->is_variadic_tuple() && m->fixed_size == 0) { o.push_back(3); }
                else { o.push_back(6); o.push_back(static_cast<std::int64_t>(m->fixed_size)); }
                enc_sty(m->element_type, o);
                return;
            case ValueTypeKind::Set: o.push_back(4); enc_sty(m->element_type, o); return;
            case ValueTypeKind::Map: o.push_back(5); enc_sty(m->key_type, o); enc_sty(m->element_type, o); return;
            case ValueTypeKind::Bundle:
                if (m->is_named_bundle() && m->bundle_hierarchy != nullptr)
                {
                    const std::string local{m->bundle_local_name()};
                    const auto        p = local.rfind('_');
                    o.push_back(7);
                    o.push_back(p == std::string::npos ? -1 : std::stoll(local.substr(p + 1)));
                    o.push_back(static_cast<std::int64_t>(m->bundle_hierarchy->parents.size()));
                    for (const ValueTypeMetaData *parent : m->bundle_hierarchy->parents) { enc_sty(parent, o); }
                    return;
                }
                o.push_back(-3);
                return;
            default: o.push_back(-3); return;
        }
    }

    void enc_tty(const TSValueTypeMetaData *m, Line &o)
    {
        if (m == nullptr) { o.push_back(-1); return; }
        switch (m->kind)
        {
            case TSTypeKind::TS: o.push_back(10); enc_sty(m->value_schema, o); return;
            case TSTypeKind::TSS:
                o.push_back(11);
                enc_sty(m->value_schema != nullptr ? m->value_schema->element_type : nullptr, o);
                return;
            case TSTypeKind::TSL:
                o.push_back(12);
                o.push_back(static_cast<std::int64_t>(m->fixed_size()));
                enc_tty(m->element_ts(), o);
                return;
            case TSTypeKind::TSD: o.push_back(13); enc_sty(m->key_type(), o); enc_tty(m->element_ts(), o); return;
            case TSTypeKind::TSW:
                o.push_back(14);
                o.push_back(static_cast<std::int64_t>(m->period()));
                o.push_back(static_cast<std::int64_t>(m->min_period()));
                enc_sty(m->value_type, o);
                return;
            case TSTypeKind::TSB:
                o.push_back(15);
                o.push_back(m->is_named_tsb() ? bundle_id(m->bundle_name()) : 0);
                o.push_back(static_cast<std::int64_t>(m->field_count()));
                for (std::size_t k = 0; k < m->field_count(); ++k)
                {
                    o.push_back(field_id(m->fields()[k].name));
                    enc_tty(m->fields()[k].type, o);
                }
                return;
            case TSTypeKind::REF: o.push_back(16); enc_tty(m->referenced_ts(), o); return;
            case TSTypeKind::SIGNAL: o.push_back(17); return;
        }
        o.push_back(-4);
    }

    // ---------------------------------------------------------------- patterns
    ScalarPattern parse_spat(Cur &c)
    {
        switch (c.next())
        {
            case 20:
            {
                const std::int64_t                     v = c.next();
                const std::size_t                      n = c.count();
                std::vector<const ValueTypeMetaData *> cons;
                for (std::size_t k = 0; k < n; ++k) { cons.push_back(parse_sty(c)); }
                return ScalarPattern::var(var_name(v), std::move(cons));
            }
            case 21: return ScalarPattern::concrete(parse_sty(c));
            case 22:
            {
                const std::int64_t has = c.next();
                if (has == 0) { return ScalarPattern::unknown_tuple(); }
                if (has != 1) { throw Malformed("unknown tuple"); }
                return ScalarPattern::unknown_tuple(parse_spat(c));
            }
            case 23: return ScalarPattern::homogeneous_tuple(parse_spat(c));
            case 24:
            {
                const std::size_t          n = c.count();
                std::vector<ScalarPattern> el;
                for (std::size_t k = 0; k < n; ++k) { el.push_back(parse_spat(c)); }
                return ScalarPattern::fixed_tuple(std::move(el));
            }
            case 25: return ScalarPattern::set(parse_spat(c));
            case 26:
            {
                ScalarPattern k = parse_spat(c);
                ScalarPattern v = parse_spat(c);
                return ScalarPattern::map(std::move(k), std::move(v));
            }
        }
        throw Malformed("spat");
    }

    TypePattern parse_tpat(Cur &c)
    {
        switch (c.next())
        {
            case 30:
            {
                const std::int64_t                       v = c.next();
                const std::size_t                        n = c.count();
                std::vector<const TSValueTypeMetaData *> cons;
                for (std::size_t k = 0; k < n; ++k) { cons.push_back(parse_tty(c)); }
                return TypePattern::var(var_name(v), std::move(cons));
            }
            case 31: return TypePattern::concrete(parse_tty(c));
            case 32: return TypePattern::ts(parse_spat(c));
            case 33: return TypePattern::tss(parse_spat(c));
            case 34:
            {
                const std::int64_t mode = c.next();
                if (mode == 0)
                {
                    const std::int64_t n = c.next();
                    if (n < 0 || n > 1000) { throw Malformed("size"); }
                    return TypePattern::tsl(parse_tpat(c), static_cast<std::size_t>(n));
                }
                if (mode != 1) { throw Malformed("size mode"); }
                const std::int64_t       v = c.next();
                const std::size_t        n = c.count();
                std::vector<std::size_t> cons;
                for (std::size_t k = 0; k < n; ++k)
                {
                    const std::int64_t s = c.next();
                    if (s < 0 || s > 1000) { throw Malformed("size"); }
                    cons.push_back(static_cast<std::size_t>(s));
                }
                return TypePattern::tsl_var(parse_tpat(c), var_name(v), std::move(cons));
            }
            case 35:
            {
                ScalarPattern k = parse_spat(c);
                return TypePattern::tsd(std::move(k), parse_tpat(c));
            }
            case 36:
            {
                const std::int64_t any = c.next(), p = c.next(), m = c.next();
                if (p < 0 || p > 1000 || m < 0 || m > 1000) { throw Malformed("window"); }
                ScalarPattern e = parse_spat(c);
                if (any == 1) { return TypePattern::tsw_any(std::move(e)); }
                if (any != 0) { throw Malformed("any"); }
                return TypePattern::tsw(std::move(e), static_cast<std::size_t>(p), static_cast<std::size_t>(m));
            }
            case 37:
            {
                const std::int64_t named = c.next(), name = c.next();
                if (named != 0 && named != 1) { throw Malformed("named"); }
                if (name < 0) { throw Malformed("bundle name"); }
                const std::size_t        n = c.count();
                std::vector<std::string> names;
                std::vector<TypePattern> ch;
                for (std::size_t k = 0; k < n; ++k)
                {
                    names.push_back(field_name(c.next()));
                    ch.push_back(parse_tpat(c));
                }
                return TypePattern::tsb(std::move(names), std::move(ch), named ? bundle_name(name) : std::string{}, named == 1);
            }
            case 38: return TypePattern::tsb_var(var_name(c.next()));
            case 39: return TypePattern::ref(parse_tpat(c));
            case 40: return TypePattern::signal();
        }
        throw Malformed("tpat");
    }

    // ---------------------------------------------------------------- case
    struct Ov
    {
        std::int64_t              label{0};
        bool                      has_out{false};
        TypePattern               out{};
        std::vector<ParamPattern> params;
    };
    struct Bind
    {
        std::int64_t               store{0}, var{0};
        const TSValueTypeMetaData *ts{nullptr};
        const ValueTypeMetaData   *sc{nullptr};
        std::size_t                size{0};
    };
    struct Query
    {
        std::optional<bool>        out_required;
        const TSValueTypeMetaData *expected{nullptr};
        bool                       has_init{false};
        std::vector<Bind>          init;
        std::vector<std::size_t>   hints;
        std::vector<WiringArg>     args;
    };
    struct Spec
    {
        std::vector<Ov>                        ovs;
        std::vector<std::vector<std::size_t>>  orders;
        std::vector<Query>                     queries;
        std::vector<std::vector<Bind>>         bind_scripts;
        std::vector<std::pair<const ValueTypeMetaData *, const ValueTypeMetaData *>> probes;
    };

    Bind parse_bind(Cur &c)
    {
        Bind b;
        b.store = c.next();
        b.var   = c.next();
        switch (b.store)
        {
            case 0: b.ts = parse_tty(c); break;
            case 1: b.sc = parse_sty(c); break;
            case 2:
            {
                const std::int64_t n = c.next();
                if (n < 0 || n > 1000) { throw Malformed("size"); }
                b.size = static_cast<std::size_t>(n);
                break;
            }
            default: throw Malformed("store");
        }
        return b;
    }

    Spec parse_case(const hgv::Case &cs)
    {
        Spec s;
        for (const Line &l : cs)
        {
            Cur c{l};
            switch (c.next())
            {
                case 2:
                {
                    Ov o;
                    o.label                = c.next();
                    const std::int64_t ho  = c.next();
                    if (ho != 0 && ho != 1) { throw Malformed("has_out"); }
                    o.has_out = ho == 1;
                    if (o.has_out) { o.out = parse_tpat(c); }
                    const std::size_t np = c.count();
                    for (std::size_t k = 0; k < np; ++k)
                    {
                        ParamPattern       p;
                        const std::int64_t kind = c.next();
                        p.name                  = "p" + std::to_string(k);
                        if (kind == 0) { p.kind = ParamPattern::Kind::Input; p.ts = parse_tpat(c); }
                        else if (kind == 1) { p.kind = ParamPattern::Kind::Scalar; p.scalar = parse_spat(c); }
                        else { throw Malformed("param kind"); }
                        // default of the parameter: 0 required | 1 None default | 2 S default value of schema S
                        switch (c.next())
                        {
                            case 0: break;
                            case 1: p.default_value = Value{}; break;
                            case 2:
                            {
                                const ValueTypeMetaData *meta = parse_sty(c);
                                Value                    v{ValuePlanFactory::instance().type_for(meta)};
                                if (!v.has_value() || v.schema() != meta) { throw std::runtime_error("default value construction"); }
                                p.default_value = std::move(v);
                                break;
                            }
                            default: throw Malformed("default");
                        }
                        o.params.push_back(std::move(p));
                    }
                    s.ovs.push_back(std::move(o));
                    break;
                }
                case 3:
                {
                    std::vector<std::size_t> ord;
                    const std::size_t        n = c.count();
                    for (std::size_t k = 0; k < n; ++k)
                    {
                        const std::int64_t i = c.next();
                        if (i < 0) { throw Malformed("order index"); }
                        ord.push_back(static_cast<std::size_t>(i));
                    }
                    s.orders.push_back(std::move(ord));
                    break;
                }
                case 4:
                {
                    Query              q;
                    const std::int64_t oreq = c.next();
                    if (oreq == 0 || oreq == 1) { q.out_required = oreq == 1; }
                    else if (oreq != -1) { throw Malformed("out_required"); }
                    const std::int64_t he = c.next();
                    if (he == 1) { q.expected = parse_tty(c); }
                    else if (he != 0) { throw Malformed("has_expected"); }
                    const std::size_t ni = c.count();
                    q.has_init           = ni > 0;
                    for (std::size_t k = 0; k < ni; ++k) { q.init.push_back(parse_bind(c)); }
                    const std::size_t nh = c.count();
                    for (std::size_t k = 0; k < nh; ++k)
                    {
                        const std::int64_t h = c.next();
                        if (h < 0 || h > 1000) { throw Malformed("hint"); }
                        q.hints.push_back(static_cast<std::size_t>(h));
                    }
                    const std::size_t na = c.count();
                    for (std::size_t k = 0; k < na; ++k)
                    {
                        WiringArg a;
                        switch (c.next())
                        {
                            case 0:
                                a.kind        = WiringArg::Kind::TimeSeries;
                                a.port.schema = parse_tty(c);
                                break;
                            case 1:
                                a.kind         = WiringArg::Kind::Scalar;
                                a.scalar_meta  = parse_sty(c);
                                // a default-constructed payload of that schema (Value{schema} alone is a typed null)
                                a.scalar_value = Value{ValuePlanFactory::instance().type_for(a.scalar_meta)};
                                if (!a.scalar_value.has_value() || a.scalar_value.schema() != a.scalar_meta)
                                {
                                    throw std::runtime_error("scalar value construction");
                                }
                                break;
                            case 2: a.kind = WiringArg::Kind::TimeSeries; break;   // null source
                            case 3: a.kind = WiringArg::Kind::Scalar; break;       // absent scalar (Python None)
                            default: throw Malformed("arg kind");
                        }
                        q.args.push_back(std::move(a));
                    }
                    s.queries.push_back(std::move(q));
                    break;
                }
                case 8:
                {
                    const ValueTypeMetaData *cand = parse_sty(c);
                    const ValueTypeMetaData *base = parse_sty(c);
                    s.probes.emplace_back(cand, base);
                    break;
                }
                case 7:
                {
                    std::vector<Bind> ops;
                    const std::size_t n = c.count();
                    for (std::size_t k = 0; k < n; ++k) { ops.push_back(parse_bind(c)); }
                    s.bind_scripts.push_back(std::move(ops));
                    break;
                }
                default: throw Malformed("line tag");
            }
            if (!c.done()) { throw Malformed("trailing tokens"); }
        }
        for (const auto &ord : s.orders)
        {
            for (std::size_t i : ord) { if (i >= s.ovs.size()) { throw Malformed("order index range"); } }
        }
        return s;
    }

    // ---------------------------------------------------------------- running
    struct Obs final : WiringObserver
    {
        std::optional<WiringResolutionEvent> ev;
        void on_overload_resolution(const WiringResolutionEvent &e) override { ev = e; }
    };

    /** Apply one bind; returns false when the map rejected it (std::logic_error). */
    bool apply_bind(ResolutionMap &m, const Bind &b)
    {
        try
        {
            if (b.store == 0) { m.bind_ts(var_name(b.var), b.ts); }
            else if (b.store == 1) { m.bind_scalar(var_name(b.var), b.sc); }
            else { m.bind_size(var_name(b.var), b.size); }
            return true;
        }
        catch (const std::logic_error &) { return false; }
    }

    void print_map(hgv::Out &out, std::initializer_list<std::int64_t> prefix, const ResolutionMap &m)
    {
        std::vector<Line> lines;
        for (const auto &[k, v] : m.ts_vars)
        {
            Line l{prefix};
            l.push_back(0); l.push_back(var_id(k)); enc_tty(v, l);
            lines.push_back(std::move(l));
        }
        for (const auto &[k, v] : m.scalar_vars)
        {
            Line l{prefix};
            l.push_back(1); l.push_back(var_id(k)); enc_sty(v, l);
            lines.push_back(std::move(l));
        }
        for (const auto &[k, v] : m.size_vars)
        {
            Line l{prefix};
            l.push_back(2); l.push_back(var_id(k)); l.push_back(static_cast<std::int64_t>(v));
            lines.push_back(std::move(l));
        }
        std::sort(lines.begin(), lines.end());
        for (const auto &l : lines) { out.line(l); }
    }

    void register_family(const std::string &name, const Spec &s, const std::vector<std::size_t> &order)
    {
        for (std::size_t i : order)
        {
            const Ov    &o = s.ovs[i];
            OperatorImpl impl;
            impl.name       = name;
            impl.label      = std::to_string(o.label);
            impl.params     = o.params;
            impl.has_output = o.has_out;
            impl.output     = o.out;
            impl.rank       = operator_dispatch_detail::operator_rank(impl.params);
            OperatorRegistry::instance().register_overload(std::move(impl));
        }
    }

    struct Result
    {
        std::int64_t                         kind{3};   // 0 selected 1 no match 2 ambiguous 3 other exception 4 requirements
        std::int64_t                         label{-1}, rank{-1};
        ResolutionMap                        map;
        const TSValueTypeMetaData           *output{nullptr};
        bool                                 has_out{false};
        std::vector<std::pair<std::int64_t, std::int64_t>> tied;
    };

    Result resolve_one(const std::string &name, const Query &q)
    {
        Result        r;
        Obs           obs;
        Wiring        w;
        w.add_wiring_observer(&obs);
        ResolutionMap init;
        for (const Bind &b : q.init) { (void)apply_bind(init, b); }
        try
        {
            ResolvedOperatorCall rc = OperatorRegistry::instance().resolve(
                name, std::span<const WiringArg>{q.args}, q.out_required, q.expected,
                std::span<const std::size_t>{q.hints}, {}, &w, q.has_init ? &init : nullptr);
            r.kind  = 0;
            r.label = std::stoll(rc.impl->label);
            r.rank  = obs.ev.has_value() && obs.ev->selected.has_value() ? obs.ev->selected->rank : -7;
            r.map   = rc.map;
            r.has_out = rc.impl->has_output;
            if (rc.impl->has_output) { r.output = ts_pattern_resolve(rc.impl->output, rc.map); }
        }
        catch (const OperatorRequirementsError &) { r.kind = 4; }
        catch (const OperatorResolutionError &)
        {
            if (obs.ev.has_value() && !obs.ev->ambiguous.empty())
            {
                r.kind = 2;
                for (const auto &c : obs.ev->ambiguous) { r.tied.emplace_back(std::stoll(c.label), c.rank); }
                std::sort(r.tied.begin(), r.tied.end());
            }
            else { r.kind = 1; }
        }
        catch (const std::exception &) { r.kind = 3; }
        return r;
    }

    void run_case(const hgv::Case &cs, hgv::Out &out)
    {
        ++g_case;
        Spec s;
        try { s = parse_case(cs); }
        catch (const Malformed &)
        {
            out.line({99});
            return;
        }
        catch (const std::exception &)
        {
            out.line({98});   // the type registry refused a type of the case (generator bug)
            return;
        }

        // direct probes of the inheritance queries the dispatcher relies on
        for (std::size_t k = 0; k < s.probes.size(); ++k)
        {
            auto      &registry = TypeRegistry::instance();
            const auto [cand, base] = s.probes[k];
            const auto d            = registry.bundle_inheritance_distance(cand, base);
            out.line({59, static_cast<std::int64_t>(k), registry.bundle_is_a(cand, base) ? 1 : 0,
                      d.has_value() ? static_cast<std::int64_t>(*d) : -1});
        }
        // static rank of every overload as registration computes it
        for (std::size_t i = 0; i < s.ovs.size(); ++i)
        {
            out.line({56, static_cast<std::int64_t>(i), operator_dispatch_detail::operator_rank(s.ovs[i].params)});
        }

        // ResolutionMap scripts (bind rejects an inconsistent re-binding)
        for (std::size_t k = 0; k < s.bind_scripts.size(); ++k)
        {
            ResolutionMap m;
            Line          l{57, static_cast<std::int64_t>(k)};
            for (const Bind &b : s.bind_scripts[k]) { l.push_back(apply_bind(m, b) ? 1 : 0); }
            out.line(l);
            print_map(out, {58, static_cast<std::int64_t>(k)}, m);
        }

        // every overload alone: does it match, at which effective rank
        for (std::size_t i = 0; i < s.ovs.size(); ++i)
        {
            const std::string name = "hgv" + std::to_string(g_case) + "_s" + std::to_string(i);
            register_family(name, s, {i});
            for (std::size_t q = 0; q < s.queries.size(); ++q)
            {
                Result r = resolve_one(name, s.queries[q]);
                out.line({55, static_cast<std::int64_t>(q), static_cast<std::int64_t>(i), r.kind, r.rank});
            }
        }

        for (std::size_t o = 0; o < s.orders.size(); ++o)
        {
            const std::string name = "hgv" + std::to_string(g_case) + "_o" + std::to_string(o);
            register_family(name, s, s.orders[o]);
            for (std::size_t q = 0; q < s.queries.size(); ++q)
            {
                const auto   oi = static_cast<std::int64_t>(o), qi = static_cast<std::int64_t>(q);
                const Result r  = resolve_one(name, s.queries[q]);
                out.line({50, oi, qi, r.kind, r.label, r.rank});
                if (r.kind == 0)
                {
                    print_map(out, {51, oi, qi}, r.map);
                    if (r.has_out)
                    {
                        Line l{52, oi, qi};
                        enc_tty(r.output, l);
                        out.line(l);
                    }
                }
                for (const auto &[label, rank] : r.tied) { out.line({53, oi, qi, label, rank}); }
            }
        }
    }
}  // namespace

int main(int argc, char **argv)
{
    if (argc < 2) { return 2; }
    hgv::Out out;
    for (const hgv::Case &cs : hgv::read_batch(argv[1]))
    {
        run_case(cs, out);
        out.end_case();
    }
    return 0;
}
