#include <../tests/cpp/test_feedback.cpp>
