#include <../tests/cpp/test_static_node.cpp>
