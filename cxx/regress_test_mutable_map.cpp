#include <../tests/cpp/test_mutable_map.cpp>
