#include <../tests/cpp/test_switch.cpp>
