// reduce_driver.cpp — family "reduce" (property C11): the REAL associative
// reduce of /repo's tree (runtime/reduce_node.cpp), wired through the static DSL
// over a TSD<Int, TS<Int>> (or a dynamic / fixed TSL) whose history is scripted
// by the case, with (a) the add_ operator (lifted kernel path), (b) a node
// combiner and (c) a two-node sub-graph combiner that LOG their operands.
// See gen/reduce.py for the case format; coq/Reduce.v is the model that must
// print the same lines.
#include "hgv_io.h"

#include <hgraph/lib/std/std_nodes.h>
#include <hgraph/lib/std/std_operators.h>
#include <hgraph/lib/std/value_util.h>
#include <hgraph/lib/testing/eval_node.h>
#include <hgraph/lib/testing/record_replay.h>
#include <hgraph/lib/testing/runtime_support.h>
#include <hgraph/runtime/lifecycle_observer.h>
#include <hgraph/runtime/reduce_node.h>
#include <hgraph/types/graph_wiring.h>
#include <hgraph/types/static_node.h>
#include <hgraph/types/subgraph_wiring.h>
#include <hgraph/types/wired_fn.h>

#include <map>
#include <optional>
#include <stdexcept>

namespace hgraph::stdlib { void register_json_operators() {} }

using namespace hgraph;
using hgv::Line;

namespace
{
    std::int64_t us(DateTime t) { return t.time_since_epoch().count(); }

    hgv::Out *g_out = nullptr;

    // ---- combiners that log their operands --------------------------------
    struct LogAdd
    {
        static constexpr auto name = "hgv_log_add";
        static void eval(DateTime now, In<"lhs", TS<Int>> lhs, In<"rhs", TS<Int>> rhs, Out<TS<Int>> out)
        {
            const Int l = lhs.value(), r = rhs.value();
            g_out->line({30, us(now), l, r});
            out.set(l + r);
        }
    };

    struct Ident
    {
        static constexpr auto name = "hgv_ident";
        static void eval(In<"x", TS<Int>> x, Out<TS<Int>> out) { out.set(x.value()); }
    };

    struct SubAdd
    {
        static constexpr auto name = "hgv_sub_add";
        static Port<TS<Int>>  compose(Wiring &w, Port<TS<Int>> lhs, Port<TS<Int>> rhs)
        {
            return wire<LogAdd>(w, wire<Ident>(w, lhs), rhs);
        }
    };

    // ---- recording sink: runs when the reduce output ticks ------------------
    struct RecSink
    {
        static constexpr auto name = "hgv_rec";
        static void eval(DateTime now, In<"x", TS<Int>, InputValidity::Unchecked> x)
        {
            const bool v = x.valid();
            g_out->line({31, us(now), v, v ? x.value() : 0});
        }
    };

    template <typename Coll, int Comb, int Zero> struct G;

    template <typename Coll, int Comb> WiredFn comb_fn()
    {
        if constexpr (Comb == 0) { return fn<stdlib::add_>(); }
        else if constexpr (Comb == 1) { return fn<LogAdd>(); }
        else { return fn<SubAdd>(); }
    }

    template <typename Coll, int Comb> struct G<Coll, Comb, 0>
    {
        static constexpr auto name = "hgv_reduce_graph";
        static void           compose(Wiring &w)
        {
            auto d = wire<stdlib::replay_impl, Coll>(w, Str{"d"});
            auto r = wire<stdlib::reduce_>(w, comb_fn<Coll, Comb>(), d).template as<TS<Int>>();
            wire<RecSink>(w, r);
        }
    };

    template <typename Coll, int Comb> struct G<Coll, Comb, 1>
    {
        static constexpr auto name = "hgv_reduce_graph_zero";
        static void           compose(Wiring &w, Scalar<"zero", Int> zero)
        {
            auto d = wire<stdlib::replay_impl, Coll>(w, Str{"d"});
            auto r = wire<stdlib::reduce_>(w, comb_fn<Coll, Comb>(), d, Int{zero.value()}).template as<TS<Int>>();
            wire<RecSink>(w, r);
        }
    };

    // a LIVE zero: a time-series with its own tick script (first tick in any cycle, re-ticks, or never)
    template <typename Coll, int Comb> struct G<Coll, Comb, 2>
    {
        static constexpr auto name = "hgv_reduce_graph_live_zero";
        static void           compose(Wiring &w)
        {
            auto d = wire<stdlib::replay_impl, Coll>(w, Str{"d"});
            auto z = wire<stdlib::replay_impl, TS<Int>>(w, Str{"z"});
            auto r = wire<stdlib::reduce_>(w, comb_fn<Coll, Comb>(), d, z).template as<TS<Int>>();
            wire<RecSink>(w, r);
        }
    };

    using Dict = TSD<Int, TS<Int>>;
    using DynL = TSL<TS<Int>>;
    using FixL = TSL<TS<Int>, 6>;

    struct Obs : LifecycleObserver
    {
        hgv::Out *out;
        bool      dict{true};
        explicit Obs(hgv::Out *o) : out(o) {}

        void on_before_node_evaluation(const NodeView &n) override
        {
            if (!n.is<ReduceNodeView>() || !dict) { return; }
            // the TSD delta exactly as reduce_node.cpp will walk it (slot order)
            const DateTime t    = n.graph().evaluation_time();
            auto           root = n.input(t);
            auto           ci   = root.indexed_child_at(0);
            if (!ci.bound()) { return; }
            TSOutputView src = ci.bound_output();
            auto         dv  = src.as_dict();
            auto         d   = dv.data_view();
            Line         rem{20, us(t)}, add{21, us(t)}, mod{22, us(t)};
            // the delta bitsets of a TSD persist until its next mutation: only a delta of THIS cycle counts
            if (!ci.modified()) { out->line(rem); out->line(add); out->line(mod); return; }
            for (std::size_t s = d.next_removed_slot(); s != TS_DATA_NO_CHILD_ID; s = d.next_removed_slot(s))
            {
                rem.push_back((std::int64_t)s);
                rem.push_back(d.removed_key_at_slot(s).checked_as<Int>());
            }
            for (std::size_t s = d.next_added_slot(); s != TS_DATA_NO_CHILD_ID; s = d.next_added_slot(s))
            {
                add.push_back((std::int64_t)s);
                add.push_back(d.key_at_slot(s).checked_as<Int>());
            }
            for (std::size_t s = d.next_modified_slot(); s != TS_DATA_NO_CHILD_ID; s = d.next_modified_slot(s))
            {
                mod.push_back((std::int64_t)s);
                mod.push_back(d.key_at_slot(s).checked_as<Int>());
            }
            out->line(rem);
            out->line(add);
            out->line(mod);
        }

        void on_after_node_evaluation(const NodeView &n) override
        {
            if (!n.is<ReduceNodeView>()) { return; }
            const DateTime t = n.graph().evaluation_time();
            auto           r = n.as<ReduceNodeView>();
            auto           o = n.output(t);
            const bool     v = o.valid();
            out->line({32, us(t), (std::int64_t)r.leaf_count(), (std::int64_t)r.combiner_count(), v,
                       v ? o.value().checked_as<Int>() : 0, o.modified()});
        }
    };

    struct Script
    {
        std::int64_t                                                    coll{0}, comb{0}, has_zero{0}, zero{0}, ncycles{0};
        std::map<std::int64_t, std::map<Int, Int>>                      sets;
        std::map<std::int64_t, std::vector<Int>>                        removes;
        std::map<std::int64_t, bool>                                    touches;
        std::map<std::int64_t, Int>                                     zeros;
    };

    template <typename Coll> std::vector<std::optional<Value>> deltas_for(const Script &s)
    {
        std::vector<std::optional<Value>> out;
        for (std::int64_t c = 0; c < s.ncycles; ++c)
        {
            auto si = s.sets.find(c);
            auto ri = s.removes.find(c);
            const bool dict = std::is_same_v<Coll, Dict>;
            if (si == s.sets.end() && (!dict || (ri == s.removes.end() && s.touches.find(c) == s.touches.end())))
            {
                out.emplace_back(std::nullopt);
                continue;
            }
            std::map<Int, Int> m = si == s.sets.end() ? std::map<Int, Int>{} : si->second;
            if constexpr (std::is_same_v<Coll, Dict>)
            {
                std::vector<Int> r = ri == s.removes.end() ? std::vector<Int>{} : ri->second;
                out.emplace_back(static_node_detail::build_dict_delta<Int, TS<Int>>(m, r));
            }
            else
            {
                std::map<std::size_t, Int> lm;
                for (auto &[k, v] : m) { lm.emplace((std::size_t)k, v); }
                out.emplace_back(static_node_detail::build_list_delta<TS<Int>>(lm));
            }
        }
        return out;
    }

    template <typename Coll, int Comb> void run_typed(const Script &s, hgv::Out &out)
    {
        GraphBuilder gb;
        if constexpr (std::is_same_v<Coll, FixL>)
        {
            gb = s.has_zero ? build_graph<G<Coll, Comb, 1>>(Int{s.zero}) : build_graph<G<Coll, Comb, 0>>();
        }
        else
        {
            gb = s.has_zero == 2 ? build_graph<G<Coll, Comb, 2>>()
                 : (s.has_zero ? build_graph<G<Coll, Comb, 1>>(Int{s.zero}) : build_graph<G<Coll, Comb, 0>>());
        }
        testing::set_replay_deltas(gb.global_state(), "d", deltas_for<Coll>(s));
        if (s.has_zero == 2)
        {
            std::vector<std::optional<Int>> zs;
            for (std::int64_t c = 0; c < s.ncycles; ++c)
            {
                auto it = s.zeros.find(c);
                zs.push_back(it == s.zeros.end() ? std::nullopt : std::optional<Int>{it->second});
            }
            testing::set_replay_values<Int>(gb.global_state(), "z", zs);
        }
        Obs obs{&out};
        obs.dict = std::is_same_v<Coll, Dict>;
        GraphExecutorBuilder eb;
        eb.graph_builder(std::move(gb)).start_time(MIN_ST).end_time(MIN_ST + TimeDelta{s.ncycles + 1}).add_lifecycle_observer(&obs);
        GraphExecutorValue executor = eb.make_executor();
        executor.view().run();
    }

    template <typename Coll> void run_coll(const Script &s, hgv::Out &out)
    {
        switch (s.comb)
        {
            case 0: run_typed<Coll, 0>(s, out); break;
            case 1: run_typed<Coll, 1>(s, out); break;
            default: run_typed<Coll, 2>(s, out); break;
        }
    }

    void run_case(const hgv::Case &c, hgv::Out &out)
    {
        Script s;
        for (const Line &l : c)
        {
            if (l.empty()) { continue; }
            if (l[0] == 1 && l.size() >= 6) { s.coll = l[1]; s.comb = l[2]; s.has_zero = l[3]; s.zero = l[4]; s.ncycles = l[5]; }
            else if (l[0] == 2 && l.size() >= 4) { s.sets[l[1]][l[2]] = l[3]; }
            else if (l[0] == 3 && l.size() >= 3) { s.removes[l[1]].push_back(l[2]); }
            else if (l[0] == 4 && l.size() >= 2) { s.touches[l[1]] = true; }
            else if (l[0] == 5 && l.size() >= 3) { s.zeros[l[1]] = l[2]; }
        }
        if (s.ncycles < 0 || s.ncycles > 200) { out.line({39, 1}); return; }
        if (s.has_zero != 0 && s.has_zero != 2) { s.has_zero = 1; }
        if (s.has_zero == 2 && s.coll != 0 && s.coll != 1) { out.line({39, 4}); return; }
        if (s.coll != 0)
        {
            // a list index outside the list would throw in the middle of the run: reject the case up front
            const std::int64_t hi = s.coll == 1 ? 200 : 5;
            for (const Line &l : c)
            {
                if (l[0] == 2 && l.size() >= 4 && (l[2] < 0 || l[2] > hi)) { out.line({39, 3}); return; }
            }
            s.coll = s.coll == 1 ? 1 : 2;
        }
        try
        {
            switch (s.coll)
            {
                case 0: run_coll<Dict>(s, out); break;
                case 1: run_coll<DynL>(s, out); break;
                default: run_coll<FixL>(s, out); break;
            }
        }
        catch (const std::exception &e)
        {
            out.line({39, 2});
            std::fprintf(stderr, "error: %s\n", e.what());
        }
    }
}  // namespace

int main(int argc, char **argv)
{
    if (argc < 2) { std::fprintf(stderr, "usage: reduce_driver <batch>\n"); return 2; }
    stdlib::register_standard_operators();
    auto     batch = hgv::read_batch(argv[1]);
    hgv::Out out;
    g_out = &out;
    for (const auto &c : batch)
    {
        run_case(c, out);
        out.end_case();
    }
    return 0;
}
