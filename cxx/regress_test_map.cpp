#include <../tests/cpp/test_map.cpp>
