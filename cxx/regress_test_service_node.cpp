#include <../tests/cpp/test_service_node.cpp>
