#include <../tests/cpp/test_lifecycle_observers.cpp>
