// rtloop_driver.cpp — family "rtloop" (property C17): the REAL real-time executor
// (run_storage + advance_realtime of src/hgraph/runtime/executor.cpp) driven
//   * mode 1 (hooks): by a virtual wall clock and named sync points
//     (include/hgraph/util/verif_hook.h; needs hooks/rtloop.patch applied to the
//     tree, detected through HGRAPH_VERIF_RTLOOP_POINTS).  Every clock reading the
//     loop makes, every wait, every critical section of request_stop /
//     mark_push_update_pending and every notify is logged in its exact order.
//   * mode 0 (free running): by the real clock; only what harness nodes and the
//     harness threads can see is logged (cycle times, clock readings taken around
//     them, calls and returns of push / stop).
// See gen/rtloop.py for the case and observation formats; coq/RTLoop.v is the
// model whose acceptor reads this output.
#include "hgv_io.h"

#include <hgraph/lib/testing/runtime_support.h>
#include <hgraph/runtime/lifecycle_observer.h>
#include <hgraph/runtime/node_scheduler.h>
#include <hgraph/runtime/runtime.h>
#include <hgraph/types/graph_wiring.h>
#include <hgraph/types/metadata/type_registry.h>
#include <hgraph/types/value/value.h>
#include <hgraph/util/verif_hook.h>

#include <atomic>
#include <chrono>
#include <condition_variable>
#include <cstring>
#include <map>
#include <memory>
#include <mutex>
#include <optional>
#include <stdexcept>
#include <thread>
#include <unistd.h>

namespace hgraph::stdlib { void register_json_operators() {} }

using namespace hgraph;
using hgv::Line;

#ifdef HGRAPH_VERIF_RTLOOP_POINTS
static constexpr bool kHaveHooks = true;
#else
static constexpr bool kHaveHooks = false;
#endif

namespace
{
    using steady = std::chrono::steady_clock;

    std::int64_t us(DateTime t) { return t.time_since_epoch().count(); }
    DateTime     dt(std::int64_t v) { return DateTime{TimeDelta{v}}; }

    struct Op { std::int64_t kind, arg; };

    struct Action
    {
        // placement: after the occ-th occurrence of loop event `code` (hook mode) / after `delay` real us (free mode)
        std::int64_t code{0}, occ{0}, kind{1}, ncode{0}, nocc{0}, delay{0};
        bool         early{false};  // free mode: counted from the beginning of graph.start, not from its end
        std::thread  th;
        bool         launched{false}, landed{false}, unlocked{false}, released{false}, done{false};
        steady::time_point t_done{};
    };

    struct Harness
    {
        std::mutex              m;
        std::condition_variable cv;
        std::vector<Line>       log;
        bool                    hooks{false};
        // virtual clock
        std::int64_t              vclock{0}, dflt{1};
        std::vector<std::int64_t> deltas;
        std::size_t               di{0};
        std::int64_t              offset{0};  // free mode: logged time = real time - offset
        std::int64_t              end_time{0};
        // loop thread bookkeeping
        std::thread::id              loop_tid{};
        std::map<std::int64_t, std::int64_t> seen;  // event code -> occurrences
        bool                         in_node_code{false};  // start hooks / graph.evaluate in progress
        bool                         after_wait{false};    // the next advance reading is taken with the mutex held
        bool                         capture{false};
        std::vector<std::int64_t>    captured;
        Action                      *inflight{nullptr};
        bool                         stutter{false};
        bool                         started{false};
        bool                         start_begun{false};  // graph.start entered (run_storage's reset is behind us)
        bool                         abort{false};
        bool                         run_done{false};
        bool                         long_slice{false};  // a waiter that misses its notify sleeps for seconds
        std::vector<std::unique_ptr<Action>> actions;
        GraphExecutorView           *view{nullptr};
        // node scripts
        std::map<std::pair<std::int64_t, std::int64_t>, std::vector<Op>> scripts;
        std::vector<std::int64_t>                                         runs;
        std::int64_t                                                      tag_counter{0};
        std::int64_t                                                      hb_due{0};  // heartbeat: time of its pending raw wake-up (rebased us)
    };

    Harness             *H = nullptr;
    thread_local Action *tl_action = nullptr;

    constexpr auto        kDeadline  = std::chrono::seconds(12);
    constexpr std::size_t kMaxEvents = 25000;

    // wait on H->cv until pred, with the watchdog; returns false when the watchdog fired
    template <typename Pred>
    bool guarded_wait(std::unique_lock<std::mutex> &lk, Pred pred)
    {
        if (H->abort) { return false; }
        if (!H->cv.wait_for(lk, kDeadline, [&] { return pred() || H->abort; }) || H->abort)
        {
            if (!H->abort)
            {
                H->abort = true;
                H->log.push_back({99});
                H->cv.notify_all();
            }
            return false;
        }
        return true;
    }

    void run_action(Action *a)
    {
        tl_action = a;
        if (!H->hooks)
        {
            {
                std::unique_lock lk{H->m};
                H->cv.wait_for(lk, kDeadline, [&] { return H->started || H->run_done || (a->early && H->start_begun); });
            }
            std::this_thread::sleep_for(std::chrono::microseconds(a->delay));
            {
                std::lock_guard lk{H->m};
                if (H->run_done) { a->done = true; H->cv.notify_all(); return; }
                H->log.push_back({36, a->kind});
            }
        }
        if (a->kind == 1) { H->view->push_queue_engine().mark_push_update_pending(); }
        else { H->view->request_stop(); }
        std::lock_guard lk{H->m};
        if (!H->hooks) { H->log.push_back({35, a->kind}); }
        a->done   = true;
        a->t_done = steady::now();
        H->cv.notify_all();
    }

    // free mode: append one line (any thread)
    void log_free(Line l)
    {
        std::lock_guard lk{H->m};
        if (H->abort) { return; }
        H->log.push_back(std::move(l));
        if (H->log.size() > kMaxEvents)
        {
            H->abort = true;
            H->log.push_back({99});
            H->cv.notify_all();
        }
    }

    // A counted event of the loop thread (hook mode).  Logs it, then performs what the scenario places here.
    void loop_event(Line l, bool placeable = true, bool in_wait = false)
    {
        std::unique_lock lk{H->m};
        if (H->abort) { return; }
        const std::int64_t code = l[0];
        H->log.push_back(std::move(l));
        if (!H->abort && H->log.size() > kMaxEvents)
        {
            // a run-away loop (e.g. cycles repeating at end_time): stop recording, let the run be ended
            H->abort = true;
            H->log.push_back({99});
            H->cv.notify_all();
        }
        if (!placeable || H->abort) { return; }
        const std::int64_t n = ++H->seen[code];
        // notifies that were held back until this event
        for (auto &ap : H->actions)
        {
            Action *a = ap.get();
            if (a->launched && !a->released && a->ncode == code && a->nocc == n)
            {
                // only once its critical section is over (it always is: see run_case comments)
                guarded_wait(lk, [&] { return a->unlocked || a->done; });
                a->released = true;
                H->cv.notify_all();
                guarded_wait(lk, [&] { return a->done; });
            }
        }
        for (auto &ap : H->actions)
        {
            Action *a = ap.get();
            if (a->launched || a->code != code || a->occ != n) { continue; }
            a->launched = true;
            a->th       = std::thread(run_action, a);
            if (in_wait)
            {
                // the critical section needs the mutex this thread holds until it is inside wait_for
                H->inflight = a;
                break;  // one arrival per wait
            }
            if (a->ncode == 0) { guarded_wait(lk, [&] { return a->done; }); }
            else { guarded_wait(lk, [&] { return a->unlocked || a->done; }); }
        }
    }

    void sync_cb(const char *name, void *)
    {
        if (H == nullptr || !H->hooks) { return; }
        const bool on_loop = std::this_thread::get_id() == H->loop_tid;
        if (on_loop)
        {
            if (std::strcmp(name, "run.cycle.top") == 0) { loop_event({11}); }
            else if (std::strcmp(name, "run.advance.done") == 0)
            {
                loop_event({15, us(H->view->evaluation_clock().evaluation_time())});
            }
            else if (std::strcmp(name, "rt.wait.before") == 0)
            {
                {
                    std::lock_guard lk{H->m};
                    if (H->stutter) { H->stutter = false; return; }
                }
                loop_event({13}, true, true);
            }
            else if (std::strcmp(name, "rt.wait.after") == 0)
            {
                {
                    std::unique_lock lk{H->m};
                    H->after_wait = true;
                    if (Action *a = H->inflight; a != nullptr && !H->abort)
                    {
                        if (!a->landed)
                        {
                            // slice time-out while the arrival is still on its way to the mutex: invisible —
                            // the virtual clock stands still and the loop re-enters the same wait
                            H->stutter = true;
                            return;
                        }
                        if (a->ncode == 0)
                        {
                            guarded_wait(lk, [&] { return a->done; });
                            // was the waiter woken by the notify, or only by its slice time-out?
                            if (a->done && steady::now() - a->t_done > std::chrono::seconds(8)) { H->log.push_back({40}); }
                        }
                        H->inflight = nullptr;
                    }
                }
                loop_event({14}, false);
            }
            // a node asked for a stop from inside its evaluation (same function, this thread)
            else if (std::strcmp(name, "rt.stop.locked") == 0) { std::lock_guard lk{H->m}; H->log.push_back({32}); }
            else if (std::strcmp(name, "rt.stop.notified") == 0) { std::lock_guard lk{H->m}; H->log.push_back({33}); }
            else if (std::strcmp(name, "rt.push.locked") == 0) { std::lock_guard lk{H->m}; H->log.push_back({30}); }
            else if (std::strcmp(name, "rt.push.notified") == 0) { std::lock_guard lk{H->m}; H->log.push_back({31}); }
            return;
        }
        Action *a = tl_action;
        if (a == nullptr) { return; }
        if (std::strcmp(name, "rt.push.enter") == 0 || std::strcmp(name, "rt.stop.enter") == 0)
        {
            // About to take the mutex for the critical section.  With long slices give a waiter that was (wrongly)
            // notified already the time to test its predicate and block again: flag-after-notify then shows as
            // a waiter woken only by its slice time-out (event 40).
            bool slow = false;
            {
                std::lock_guard lk{H->m};
                slow = H->long_slice && H->inflight == a;
            }
            if (slow) { std::this_thread::sleep_for(std::chrono::milliseconds(300)); }
            return;
        }
        std::unique_lock lk{H->m};
        if (std::strcmp(name, "rt.push.locked") == 0 || std::strcmp(name, "rt.stop.locked") == 0)
        {
            H->log.push_back({a->kind == 1 ? 30 : 32});
            a->landed = true;
            H->cv.notify_all();
        }
        else if (std::strcmp(name, "rt.push.unlocked") == 0 || std::strcmp(name, "rt.stop.unlocked") == 0)
        {
            a->unlocked = true;
            H->cv.notify_all();
            if (a->ncode != 0) { guarded_wait(lk, [&] { return a->released; }); }
        }
        else if (std::strcmp(name, "rt.push.notified") == 0 || std::strcmp(name, "rt.stop.notified") == 0)
        {
            H->log.push_back({a->kind == 1 ? 31 : 33});
        }
    }

    std::int64_t clock_cb(void *)
    {
        if (H == nullptr) { return 0; }
        bool         node_code = false, locked = false;
        std::int64_t v         = 0;
        {
            std::lock_guard lk{H->m};
            if (std::this_thread::get_id() != H->loop_tid) { return H->vclock; }
            if (H->abort)
            {
                H->vclock = std::max(H->vclock, H->end_time + 1);
                return H->vclock;
            }
            if (H->stutter) { return H->vclock; }
            H->vclock += H->di < H->deltas.size() ? H->deltas[H->di++] : H->dflt;
            v = H->vclock;
            if (H->capture)
            {
                H->captured.push_back(v);
                return v;
            }
            node_code     = H->in_node_code;
            locked        = H->after_wait;
            H->after_wait = false;
        }
        if (node_code) { loop_event({22, v}, false); }
        else { loop_event({12, v}, !locked); }
        return v;
    }

    std::int64_t now_logged()  // free mode: a reading of the real clock, rebased
    {
        return us(testing::wall_now()) - H->offset;
    }

    void run_ops(std::int64_t i, const NodeView &view, DateTime now, std::int64_t k)
    {
        auto it = H->scripts.find({i, k});
        if (it == H->scripts.end() && k >= 0) { it = H->scripts.find({i, -2}); }
        if (it == H->scripts.end()) { return; }
        for (const Op &op : it->second)
        {
            if (op.kind >= 1 && op.kind <= 4)
            {
                NodeScheduler sched{view.scheduler_state(), view.graph_value(), view.node_index(), now,
                                    view.started(), view.evaluation_clock(), /*supports_wall_clock=*/true};
                std::string tag;
                std::int64_t wb = 0, wa = 0;
                {
                    std::lock_guard lk{H->m};
                    tag = "r" + std::to_string(++H->tag_counter);
                    H->captured.clear();
                    H->capture = H->hooks;
                }
                if (!H->hooks) { wb = now_logged(); }
                const std::int64_t shift = H->hooks ? 0 : H->offset;
                switch (op.kind)
                {
                    case 1: sched.schedule(now + TimeDelta{op.arg}, tag, false); break;
                    case 2: sched.schedule(dt(op.arg + shift), tag, true); break;
                    case 3: sched.schedule(TimeDelta{op.arg}, tag, true); break;
                    case 4: sched.schedule(dt(op.arg + shift), tag, false); break;
                }
                if (!H->hooks) { wa = now_logged(); }
                const DateTime     when = sched.tag_time(tag, MIN_DT);
                const std::int64_t eff  = when == MIN_DT ? 0 : us(when) - shift;
                Line               l{19, i, op.kind, op.arg, eff, 0, 0, 0};
                {
                    std::lock_guard lk{H->m};
                    H->capture = false;
                    if (H->hooks)
                    {
                        l[5] = (std::int64_t)H->captured.size();
                        if (H->captured.size() > 0) { l[6] = H->captured[0]; }
                        if (H->captured.size() > 1) { l[7] = H->captured[1]; }
                    }
                    else
                    {
                        l[6] = wb;
                        l[7] = wa;
                    }
                }
                if (H->hooks) { loop_event(std::move(l), false); }
                else { log_free(std::move(l)); }
            }
            else if (op.kind == 5)
            {
                if (!H->hooks) { std::lock_guard lk{H->m}; H->log.push_back({36, 2}); }
                view.graph().executor().request_stop();
                if (!H->hooks) { std::lock_guard lk{H->m}; H->log.push_back({35, 2}); }
            }
            else if (op.kind == 6)
            {
                if (H->hooks) { std::lock_guard lk{H->m}; H->vclock += op.arg; }
                else { std::this_thread::sleep_for(std::chrono::microseconds(op.arg)); }
            }
            else if (op.kind == 7) { static_cast<void>(view.evaluation_clock().now()); }
            else if (op.kind == 8 && i == 0)
            {
                // the push-kind heartbeat: a raw single-shot request, made only when it holds no future wake-up
                // (so an evaluation caused by a push to another source leaves its timer alone)
                const std::int64_t shift = H->hooks ? 0 : H->offset;
                const std::int64_t now_l = us(now) - shift;
                if (H->hb_due > now_l || op.arg < 0) { continue; }
                view.graph_value()->schedule_node(view.node_index(), now + TimeDelta{op.arg});
                const bool         entered = view.started() ? op.arg > 0 : op.arg >= 0;
                const std::int64_t eff     = entered ? now_l + op.arg : 0;
                if (entered) { H->hb_due = eff; }
                Line l{19, i, 8, op.arg, eff, 0, 0, 0};
                if (!H->hooks) { l[6] = now_logged(); l[7] = l[6]; }
                if (H->hooks) { loop_event(std::move(l), false); }
                else { log_free(std::move(l)); }
            }
        }
    }

    struct Obs : LifecycleObserver
    {
        void on_before_start_graph(const GraphView &) override
        {
            std::lock_guard lk{H->m};
            H->in_node_code = true;
            H->start_begun  = true;
            H->cv.notify_all();
        }
        void on_after_start_graph(const GraphView &) override
        {
            {
                std::lock_guard lk{H->m};
                H->in_node_code = false;
                H->started      = true;
                H->cv.notify_all();
            }
            if (H->hooks) { loop_event({10}); }
            else { log_free({10}); }
        }
        void on_before_graph_evaluation(const GraphView &g) override
        {
            {
                std::lock_guard lk{H->m};
                H->in_node_code = true;
            }
            if (H->hooks) { loop_event({16, us(g.evaluation_time())}); }
            else
            {
                const std::int64_t w = now_logged();
                log_free({16, us(g.evaluation_time()) - H->offset, w});
            }
        }
        void on_after_graph_evaluation(const GraphView &g) override
        {
            // the cache the run loop takes its next target from
            const DateTime     next = g.next_scheduled_time();
            const std::int64_t nx   = next == MAX_DT ? -1 : us(next) - H->offset;
            if (H->hooks)
            {
                loop_event({20});
                loop_event({23, nx}, false);
            }
            else
            {
                const std::int64_t w = now_logged();
                log_free({20, w});
                log_free({23, nx});
            }
            std::lock_guard lk{H->m};
            H->in_node_code = false;
        }
    };

    void run_case(const hgv::Case &c, hgv::Out &out)
    {
        auto       &registry = TypeRegistry::instance();
        const auto *int_meta = registry.register_scalar<std::int64_t>("int64");
        const auto *ts_int   = registry.ts(int_meta);

        Harness h;
        H = &h;
        std::int64_t start = 1000, end = 2000, slice = 1000, virt = 1, v0 = 900, nnodes = 1, prestop = 0, heartbeat = 0, join_on = 0, join_ta2 = 0, join_db = -1, join_t = 0;
        h.dflt = 1;
        for (const Line &l : c)
        {
            if (l[0] == 1 && l.size() >= 7)
            {
                start = l[1]; end = l[2]; slice = l[3]; virt = l[4]; v0 = l[5]; h.dflt = l[6];
            }
            else if (l[0] == 2) { h.deltas.insert(h.deltas.end(), l.begin() + 1, l.end()); }
            else if (l[0] == 3 && l.size() >= 5) { h.scripts[{l[1], l[2]}].push_back({l[3], l[4]}); }
            else if (l[0] == 4 && l.size() >= 6)
            {
                auto a = std::make_unique<Action>();
                a->code = l[1]; a->occ = l[2]; a->kind = l[3]; a->ncode = l[4]; a->nocc = l[5];
                // without hooks the scenario degrades to a free-running one: arrivals by real delay
                a->delay = 30 * (l[2] + 1);
                h.actions.push_back(std::move(a));
            }
            else if (l[0] == 5 && l.size() >= 3)
            {
                auto a = std::make_unique<Action>();
                a->delay = l[1]; a->kind = l[2];
                a->early = l.size() >= 4 && l[3] != 0;
                h.actions.push_back(std::move(a));
            }
            else if (l[0] == 6 && l.size() >= 2) { nnodes = l[1]; }
            else if (l[0] == 7 && l.size() >= 2) { prestop = l[1]; }
            else if (l[0] == 8 && l.size() >= 2) { heartbeat = l[1]; }
            else if (l[0] == 9 && l.size() >= 4) { join_on = 1; join_ta2 = l[1]; join_db = l[2]; join_t = l[3]; }
        }
        if (nnodes < 1) { nnodes = 1; }
        if (nnodes > 4) { nnodes = 4; }
        h.hooks    = kHaveHooks && virt == 1;
        h.vclock   = v0;
        h.end_time   = end;
        h.long_slice = slice >= 1000000;
        h.runs.assign((std::size_t)nnodes + 1, 0);
        if (!h.hooks)
        {
            // rebase: the scenario's v0 is "now"
            h.offset = us(testing::wall_now()) - v0;
            // free-mode placement by delay only
            for (auto &a : h.actions) { a->code = 0; a->ncode = 0; }
        }
        out.line({90, h.hooks ? 1 : 0});

        GraphBuilder gb;
        {
            // node 0: a push source; evaluated when reset_push_update_pending() returned true
            NodeTypeMetaData schema;
            schema.display_name  = "hgv_push";
            schema.output_schema = ts_int;
            schema.node_kind     = NodeKind::PushSource;
            NodeCallbacks cb;
            cb.evaluate = [](const NodeView &, DateTime) {
                if (H->hooks) { loop_event({17}); }
                else { log_free({17}); }
            };
            gb.add_node(NodeBuilder::native(std::move(schema), std::move(cb)));
        }
        if (heartbeat != 0)
        {
            // a second node of the push-source prefix: push-kind, owns a raw timer (script id 0).  It is evaluated
            // when its slot is due AND whenever a push is pending for any push source.
            NodeTypeMetaData schema;
            schema.display_name  = "hgv_heartbeat";
            schema.output_schema = ts_int;
            schema.node_kind     = NodeKind::PushSource;
            NodeCallbacks cb;
            cb.start = [](const NodeView &v, DateTime t) {
                if (H->hooks) { loop_event({9, 0}); }
                run_ops(0, v, t, -1);
            };
            cb.evaluate = [](const NodeView &v, DateTime t) {
                const std::int64_t k = H->runs[0]++;
                if (H->hooks) { loop_event({18, 0, k}); }
                else { log_free({18, 0, k}); }
                run_ops(0, v, t, k);
            };
            gb.add_node(NodeBuilder::native(std::move(schema), std::move(cb)));
        }
        for (std::int64_t i = 1; i <= nnodes; ++i)
        {
            NodeTypeMetaData schema;
            schema.display_name   = "hgv_timer";
            schema.uses_scheduler = true;
            schema.node_kind      = NodeKind::PullSource;
            NodeCallbacks cb;
            cb.start    = [i](const NodeView &v, DateTime t) {
                // placement point "while the start hook of node i is executing" (hook mode)
                if (H->hooks) { loop_event({9, i}); }
                run_ops(i, v, t, -1);
            };
            cb.evaluate = [i](const NodeView &v, DateTime t) {
                const std::int64_t k = H->runs[(std::size_t)i]++;
                if (H->hooks) { loop_event({18, i, k}); }
                else { log_free({18, i, k}); }
                run_ops(i, v, t, k);
            };
            gb.add_node(NodeBuilder::native(std::move(schema), std::move(cb)));
        }

        if (join_on != 0)
        {
            // The one wired shape of this family: sources A (id 101) and B (id 102) and a join J (id 103) with inputs
            // a (active) and b (passive), default gate (every input must be valid).  J arms a NodeScheduler timer at
            // start+join_t in its start hook.  A ticks in the start cycle (and again at +join_ta2), B at +join_db (or
            // never): while b is invalid a tick of a notifies J, which is gated out - its timer must stay armed.
            const std::size_t base = (std::size_t)(1 + (heartbeat != 0 ? 1 : 0) + nnodes);
            auto raw_req = [](std::int64_t id, const NodeView &v, DateTime now, std::int64_t arg, bool started) {
                v.graph_value()->schedule_node(v.node_index(), now + TimeDelta{arg});
                const std::int64_t shift = H->hooks ? 0 : H->offset;
                const bool         entered = started ? arg > 0 : arg >= 0;
                Line l{19, id, 8, arg, entered ? us(now) - shift + arg : 0, 0, 0, 0};
                if (!H->hooks) { l[6] = now_logged(); l[7] = l[6]; }
                if (H->hooks) { loop_event(std::move(l), false); }
                else { log_free(std::move(l)); }
            };
            auto emit = [](const NodeView &v, DateTime now, std::int64_t val) {
                auto mutation = v.output(now).begin_mutation(now);
                static_cast<void>(mutation.move_value_from(Value{val}));
            };
            auto src = [&](std::int64_t id, std::int64_t first, std::int64_t second) {
                NodeTypeMetaData schema;
                schema.display_name  = "hgv_src";
                schema.output_schema = ts_int;
                schema.node_kind     = NodeKind::PullSource;
                NodeCallbacks cb;
                cb.start = [=](const NodeView &v, DateTime t) {
                    if (first >= 0) { raw_req(id, v, t, first, false); }
                };
                auto runs = std::make_shared<std::int64_t>(0);
                cb.evaluate = [=](const NodeView &v, DateTime t) {
                    const std::int64_t k = (*runs)++;
                    if (H->hooks) { loop_event({18, id, k}); }
                    else { log_free({18, id, k}); }
                    emit(v, t, k + 1);
                    if (k == 0 && second > 0) { raw_req(id, v, t, second, true); }
                };
                gb.add_node(NodeBuilder::native(std::move(schema), std::move(cb)));
            };
            src(101, 0, join_ta2);
            src(102, join_db, 0);
            {
                std::vector<std::pair<std::string, const TSValueTypeMetaData *>> fields{{"a", ts_int}, {"b", ts_int}};
                std::vector<TSEndpointSchema> children{TSEndpointSchema::peered(ts_int), TSEndpointSchema::peered(ts_int)};
                const auto      *in_schema = registry.un_named_tsb(fields);
                NodeTypeMetaData schema;
                schema.display_name   = "hgv_join";
                schema.uses_scheduler = true;
                schema.input_schema   = in_schema;
                schema.active_inputs  = std::vector<std::size_t>{0};
                schema.node_kind      = NodeKind::Sink;
                NodeCallbacks      cb;
                const std::int64_t jt = join_t;
                cb.start = [jt](const NodeView &v, DateTime t) {
                    NodeScheduler sched{v.scheduler_state(), v.graph_value(), v.node_index(), t, v.started()};
                    sched.schedule(t + TimeDelta{jt}, std::string{"j"});
                    const std::int64_t shift = H->hooks ? 0 : H->offset;
                    const DateTime     when  = sched.tag_time("j", MIN_DT);
                    Line               l{19, 103, 1, jt, when == MIN_DT ? 0 : us(when) - shift, 0, 0, 0};
                    if (!H->hooks) { l[6] = now_logged(); l[7] = l[6]; }
                    if (H->hooks) { loop_event(std::move(l), false); }
                    else { log_free(std::move(l)); }
                };
                auto runs = std::make_shared<std::int64_t>(0);
                cb.evaluate = [runs](const NodeView &, DateTime) {
                    const std::int64_t k = (*runs)++;
                    if (H->hooks) { loop_event({18, 103, k}); }
                    else { log_free({18, 103, k}); }
                };
                gb.add_node(NodeBuilder::native(std::move(schema), std::move(cb),
                                                TSEndpointSchema::non_peered(in_schema, std::move(children))));
            }
            gb.add_edge(GraphEdge{.source_node = base, .source_path = {}, .target_node = base + 2, .target_path = {0}});
            gb.add_edge(GraphEdge{.source_node = base + 1, .source_path = {}, .target_node = base + 2, .target_path = {1}});
        }

        Obs                  obs;
        GraphExecutorBuilder eb;
        eb.graph_builder(std::move(gb))
            .mode(GraphExecutorMode::RealTime)
            .start_time(dt(start + h.offset))
            .end_time(dt(end + h.offset))
            .max_wait_slice(TimeDelta{slice})
            .add_lifecycle_observer(&obs);
        std::int64_t err = 0;
        try
        {
            GraphExecutorValue executor = eb.make_executor();
            GraphExecutorView  view     = executor.view();
            h.view                      = &view;
            if (h.hooks)
            {
                verif::hooks().sync_context.store(nullptr);
                verif::hooks().wall_context.store(nullptr);
                verif::hooks().sync_point.store(&sync_cb, std::memory_order_release);
                verif::hooks().wall_clock.store(&clock_cb, std::memory_order_release);
            }
            else
            {
                // free mode: arrival threads wait for the start, then sleep their delay
                for (auto &a : h.actions)
                {
                    a->launched = true;
                    a->th       = std::thread(run_action, a.get());
                }
            }
            // a stop requested before run() is entered (run_storage's prologue clears the flag)
            if (prestop != 0) { view.request_stop(); }
            std::thread runner([&] {
                {
                    std::lock_guard lk{h.m};
                    h.loop_tid = std::this_thread::get_id();
                }
                try { view.run(); }
                catch (const std::exception &e)
                {
                    std::fprintf(stderr, "run error: %s\n", e.what());
                    std::lock_guard lk{h.m};
                    h.log.push_back({98});
                }
                if (h.hooks) { loop_event({21}, false); }
                else
                {
                    const std::int64_t w = now_logged();
                    std::lock_guard    lk{h.m};
                    h.log.push_back({21, w});
                }
                std::lock_guard lk{h.m};
                h.run_done = true;
                // notifies still held back are let go now
                for (auto &a : h.actions) { a->released = true; }
                h.cv.notify_all();
            });
            {
                std::unique_lock lk{h.m};
                h.cv.wait_for(lk, std::chrono::seconds(90), [&] { return h.run_done || h.abort; });
                if (!h.run_done)
                {
                    // the loop is stuck: give up on it
                    if (!h.abort) { h.log.push_back({99}); }
                    h.abort = true;
                    h.cv.notify_all();
                    lk.unlock();
                    view.request_stop();
                    lk.lock();
                    if (!h.cv.wait_for(lk, std::chrono::seconds(15), [&] { return h.run_done; }))
                    {
                        for (const Line &l : h.log) { out.line(l); }
                        out.line({97});
                        out.end_case();
                        _exit(3);
                    }
                }
            }
            runner.join();
            for (auto &a : h.actions)
            {
                if (a->th.joinable()) { a->th.join(); }
            }
            verif::hooks().sync_point.store(nullptr, std::memory_order_release);
            verif::hooks().wall_clock.store(nullptr, std::memory_order_release);
            h.view = nullptr;
        }
        catch (const std::exception &e)
        {
            err = 1;
            std::fprintf(stderr, "build error: %s\n", e.what());
        }
        verif::hooks().sync_point.store(nullptr, std::memory_order_release);
        verif::hooks().wall_clock.store(nullptr, std::memory_order_release);
        for (const Line &l : h.log) { out.line(l); }
        if (err != 0) { out.line({96, err}); }
        H = nullptr;
    }
}  // namespace

int main(int argc, char **argv)
{
    if (argc < 2) { std::fprintf(stderr, "usage: rtloop_driver <batch>\n"); return 2; }
    setenv("HGRAPH_VERIF", "1", 1);
    auto     batch = hgv::read_batch(argv[1]);
    hgv::Out out;
    for (const auto &c : batch)
    {
        run_case(c, out);
        out.end_case();
    }
    return 0;
}
