#include <../tests/cpp/test_service_runtime.cpp>
