#include <../tests/cpp/test_context_wiring.cpp>
